"""H5: strict wire-format parsers written for this work (no urllib3 / http.client imports).

* parse_requests(data)  - strict HTTP/1.1 request-stream parser (request line, header
                          lines, body by Content-Length xor chunked), reports leftovers
* parse_multipart(body, boundary) - strict RFC 7578 / WHATWG multipart/form-data parser
"""
from __future__ import annotations

import typing

TCHAR = set(b"!#$%&'*+-.^_`|~0123456789abcdefghijklmnopqrstuvwxyzABCDEFGHIJKLMNOPQRSTUVWXYZ")


class WireError(Exception):
    pass


class Request(typing.NamedTuple):
    method: bytes
    target: bytes
    version: bytes
    headers: list  # [(name_bytes, value_bytes)] in order, value without surrounding OWS; obs-fold joined with b"\r\n "...
    raw_header_lines: list  # the physical lines as sent (without CRLF)
    body: bytes  # de-framed payload
    framing: str  # 'none' | 'content-length' | 'chunked'
    chunks: list  # chunk payloads as sent (chunked only)
    raw: bytes  # all bytes of this request

    def header_values(self, name: str) -> list:
        n = name.lower().encode()
        return [v for k, v in self.headers if k.lower() == n]


def _find_crlf(data: bytes, start: int) -> int:
    return data.find(b"\r\n", start)


def parse_one_request(data: bytes, pos: int = 0, bodyless_methods_ok: bool = True) -> tuple[Request | None, int, str | None]:
    """Parse one request starting at pos. Returns (request, new_pos, error).
    error is None for a complete request; 'incomplete:<what>' when data ends early;
    'malformed:<what>' for a syntax violation."""
    start = pos
    e = _find_crlf(data, pos)
    if e < 0:
        return None, pos, "incomplete:request-line"
    line = data[pos:e]
    if b"\r" in line or b"\n" in line:
        return None, pos, "malformed:bare CR/LF in request line"
    parts = line.split(b" ")
    if len(parts) != 3:
        return None, pos, f"malformed:request line has {len(parts)} space-separated parts: {line[:120]!r}"
    method, target, version = parts
    if not method or any(c not in TCHAR for c in method):
        return None, pos, f"malformed:method is not a token: {method[:60]!r}"
    if not target:
        return None, pos, "malformed:empty target"
    if any(c <= 0x20 or c == 0x7F for c in target):
        return None, pos, f"malformed:control/space byte in target {target[:120]!r}"
    if version not in (b"HTTP/1.1", b"HTTP/1.0"):
        return None, pos, f"malformed:version {version[:30]!r}"
    pos = e + 2
    headers: list = []
    raw_lines: list = []
    while True:
        e = _find_crlf(data, pos)
        if e < 0:
            return None, start, "incomplete:headers"
        line = data[pos:e]
        pos = e + 2
        if line == b"":
            break
        if b"\r" in line or b"\n" in line:
            return None, start, f"malformed:bare CR/LF inside header line {line[:120]!r}"
        raw_lines.append(line)
        if line[:1] in (b" ", b"\t"):
            if not headers:
                return None, start, "malformed:continuation line before any header"
            k, v = headers[-1]
            headers[-1] = (k, v + b"\r\n" + line)
            continue
        c = line.find(b":")
        if c <= 0:
            return None, start, f"malformed:header line without a name: {line[:120]!r}"
        name = line[:c]
        if any(ch not in TCHAR for ch in name):
            return None, start, f"malformed:header name is not a token: {name[:60]!r}"
        value = line[c + 1 :].strip(b" \t")
        headers.append((name, value))
    cl = [v for k, v in headers if k.lower() == b"content-length"]
    te = [v for k, v in headers if k.lower() == b"transfer-encoding"]
    chunks: list = []
    if te:
        codings = [x.strip().lower() for v in te for x in v.split(b",")]
        if codings[-1:] != [b"chunked"]:
            return None, start, f"malformed:transfer-encoding without final chunked: {te!r}"
        body = bytearray()
        while True:
            e = _find_crlf(data, pos)
            if e < 0:
                return None, start, "incomplete:chunk-size"
            size_line = data[pos:e]
            semi = size_line.find(b";")
            hexpart = size_line if semi < 0 else size_line[:semi]
            if not hexpart or any(ch not in b"0123456789abcdefABCDEF" for ch in hexpart):
                return None, start, f"malformed:chunk size {size_line[:40]!r}"
            n = int(hexpart, 16)
            pos = e + 2
            if n == 0:
                # trailers until empty line
                while True:
                    e = _find_crlf(data, pos)
                    if e < 0:
                        return None, start, "incomplete:trailers"
                    tl = data[pos:e]
                    pos = e + 2
                    if tl == b"":
                        break
                break
            if len(data) < pos + n + 2:
                return None, start, "incomplete:chunk-data"
            chunk = data[pos : pos + n]
            if data[pos + n : pos + n + 2] != b"\r\n":
                return None, start, "malformed:chunk data not followed by CRLF"
            chunks.append(bytes(chunk))
            body += chunk
            pos += n + 2
        framing = "chunked"
        payload = bytes(body)
    elif cl:
        vals = {v for v in cl}
        if len(vals) != 1 or not cl[0].isdigit():
            return None, start, f"malformed:content-length {cl!r}"
        n = int(cl[0])
        if len(data) < pos + n:
            return None, start, "incomplete:body"
        payload = data[pos : pos + n]
        pos += n
        framing = "content-length"
    else:
        payload = b""
        framing = "none"
    return Request(method, target, version, headers, raw_lines, payload, framing, chunks, data[start:pos]), pos, None


def parse_requests(data: bytes) -> tuple[list, bytes, str | None]:
    """Parse a whole byte stream into requests. Returns (requests, leftover, error)."""
    pos = 0
    out = []
    while pos < len(data):
        req, npos, err = parse_one_request(data, pos)
        if err is not None:
            return out, data[pos:], err
        out.append(req)
        pos = npos
    return out, b"", None


# --------------------------------------------------------------------------- multipart


class Part(typing.NamedTuple):
    headers: list  # [(name_bytes, value_bytes)]
    data: bytes


def parse_multipart(body: bytes, boundary: bytes) -> list:
    """Strict parser: body = *( "--" b CRLF *(header CRLF) CRLF data CRLF ) "--" b "--" CRLF.
    Raises WireError on any deviation (including anything after the close delimiter)."""
    delim = b"--" + boundary
    pos = 0
    parts = []
    if not body.startswith(delim):
        raise WireError(f"body does not start with the delimiter: {body[:60]!r}")
    while True:
        if not body.startswith(delim, pos):
            raise WireError(f"expected delimiter at offset {pos}: {body[pos:pos+60]!r}")
        pos += len(delim)
        if body.startswith(b"--", pos):
            pos += 2
            if body[pos:] != b"\r\n":
                raise WireError(f"bytes after the close delimiter: {body[pos:pos+60]!r}")
            return parts
        if not body.startswith(b"\r\n", pos):
            raise WireError(f"delimiter not followed by CRLF at {pos}: {body[pos:pos+20]!r}")
        pos += 2
        headers = []
        while True:
            e = body.find(b"\r\n", pos)
            if e < 0:
                raise WireError("unterminated header block")
            line = body[pos:e]
            pos = e + 2
            if line == b"":
                break
            if b"\r" in line or b"\n" in line:
                raise WireError(f"bare CR/LF in part header line {line[:80]!r}")
            c = line.find(b":")
            if c <= 0 or any(ch not in TCHAR for ch in line[:c]):
                raise WireError(f"part header line is not 'token: value': {line[:80]!r}")
            if line[c + 1 : c + 2] != b" ":
                raise WireError(f"part header without SP after colon: {line[:80]!r}")
            headers.append((line[:c], line[c + 2 :]))
        nxt = body.find(b"\r\n" + delim, pos)
        if nxt < 0:
            raise WireError("part data not terminated by CRLF + delimiter")
        parts.append(Part(headers, body[pos:nxt]))
        pos = nxt + 2


def parse_disposition(value: bytes) -> tuple[bytes, list]:
    """`type *( "; " name "=" DQUOTE *(any but DQUOTE CR LF) DQUOTE )` -> (type, [(name, raw_value)])"""
    i = 0
    n = len(value)
    while i < n and value[i] in TCHAR:
        i += 1
    dtype = value[:i]
    if not dtype:
        raise WireError(f"no disposition type in {value[:60]!r}")
    params = []
    while i < n:
        if value[i : i + 2] != b"; ":
            raise WireError(f"expected '; ' at {i} in {value[:120]!r}")
        i += 2
        j = i
        while j < n and value[j] in TCHAR:
            j += 1
        pname = value[i:j]
        if not pname or value[j : j + 2] != b'="':
            raise WireError(f"bad parameter at {i} in {value[:120]!r}")
        k = value.find(b'"', j + 2)
        if k < 0:
            raise WireError(f"unterminated quoted parameter in {value[:120]!r}")
        pval = value[j + 2 : k]
        if b"\r" in pval or b"\n" in pval:
            raise WireError("CR/LF inside parameter value")
        params.append((pname, pval))
        i = k + 1
    return dtype, params
