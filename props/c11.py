"""C11 - request bodies are framed exactly and re-sent identically."""
from __future__ import annotations

import itertools
import os

from vlib import core, fakenet, reqwire, servers
from vlib.core import Failure

PROP = "C11"
RULE = (
    "a case is (entry pool|PoolManager, method, body kind x size x start offset, chunked flag, caller framing header "
    "none|Content-Length|Transfer-Encoding, blocksize 8|default, attempt history of <= 3 outcomes from {ok, reset after "
    "the request was read, 503, 301, 302, 303, 307, 308, connect refused}). quick enumerates the product body kind x size x "
    "method x chunked x framing for history [ok] and body kind x size x history for the re-send clause (distinct by "
    "construction) plus Hypothesis-drawn mixed cases; thorough enumerates the full product. Non-trivial = the body is "
    "non-empty and the history contains a re-send, or the body size straddles the blocksize."
)
ASSUMPTIONS = [
    "vlib/reqwire.py de-frames each attempt independently of http.client's generation code",
    "the retry policy used (total=5, allowed_methods=None, status_forcelist=[503], redirect=5) makes every scripted fault re-sendable",
    "file-likes that have tell() but no seek() are outside the generated domain",
]
EXHAUSTIVE = {"quick": False, "thorough": True}

METHODS = ["GET", "HEAD", "DELETE", "OPTIONS", "TRACE", "POST", "PUT", "PATCH", "FOO"]
NOBODY = {"GET", "HEAD", "DELETE", "TRACE", "OPTIONS", "CONNECT"}
SIZES = [0, 1, 7, 8, 9, 31]
KINDS = ["none", "bytes", "bytearray", "memoryview", "str", "bytesio", "stringio", "file", "textfile", "notell", "badtell", "shortread", "list", "tuple", "gen", "array-B", "array-I"]
HISTORIES = [["ok"], ["reset", "ok"], ["503", "ok"], ["307", "ok"], ["308", "ok"], ["303", "ok"], ["302", "ok"], ["301", "ok"], ["refused", "ok"],
             ["reset", "503", "ok"], ["307", "reset", "ok"], ["503", "308", "ok"], ["303", "503", "ok"], ["refused", "307", "ok"], ["reset", "reset", "ok"]]
TEXT = "aé€b\r\nZ0123456789abcdefghijklmnopqrstuvwxyz"


def _scale(n):
    return max(1, int(n * float(os.environ.get("VERIF_SCALE", "1"))))


def body_spec(kind, size, off=0):
    raw = (TEXT * 3)
    if kind == "none":
        return None
    if kind in ("bytes", "bytearray", "memoryview", "bytesio", "file", "notell", "badtell", "shortread"):
        data = raw.encode("utf-8")[:size].decode("latin-1")
        d = {"k": kind, "v": data}
        if kind in ("bytesio", "file", "notell", "badtell", "shortread"):
            d["off"] = min(off, size)
        return d
    if kind in ("str", "stringio", "textfile"):
        d = {"k": kind, "v": raw[:size]}
        if kind != "str":
            d["off"] = min(off, size)
        return d
    if kind in ("list", "tuple", "gen"):
        data = raw[:size]
        chunks = []
        step = 3
        for i in range(0, len(data), step):
            piece = data[i : i + step]
            if (i // step) % 2:
                chunks.append({"t": "b", "v": piece.encode("utf-8").decode("latin-1")})
            else:
                chunks.append({"t": "s", "v": piece})
            if (i // step) % 3 == 1:
                chunks.append({"t": "b", "v": ""})
        if size == 0:
            chunks = [{"t": "b", "v": ""}] if off else []
        return {"k": kind, "v": chunks}
    if kind.startswith("array-"):
        return {"k": "array", "code": kind[-1], "v": list(range(1, size + 1))}
    raise ValueError(kind)


def run_case(case) -> list[Failure]:
    import urllib3
    from urllib3.exceptions import UnrewindableBodyError
    from urllib3.util.retry import Retry

    entry, method, spec = case["entry"], case["method"], case["body"]
    history = case["history"]
    if method not in METHODS or case.get("framing") not in (None, "cl", "te") or entry not in ("pool", "pm") or not history:
        raise core.InvalidCase
    if any(h not in ("ok", "reset", "refused", "503", "301", "302", "303", "307", "308") for h in history) or case.get("blocksize") not in (None, 3, 8):
        raise core.InvalidCase
    if spec is not None and (not isinstance(spec, dict) or spec.get("k") not in ("bytes", "bytearray", "memoryview", "str", "bytesio", "stringio", "file", "textfile", "notell", "badtell", "shortread", "list", "tuple", "gen", "array")):
        raise core.InvalidCase
    if spec is not None and spec["k"] in ("list", "tuple", "gen") and any(c.get("t") not in ("s", "b") for c in spec["v"]):
        raise core.InvalidCase
    if case.get("framing") == "cl" and history != ["ok"]:
        raise core.InvalidCase  # a caller-computed Content-Length is only meaningful for a single attempt
    chunked, framing = bool(case.get("chunked")), case.get("framing")
    script = []
    n_redirect = 0
    for i, h in enumerate(history):
        if h == "ok":
            script.append(servers.ok())
        elif h == "reset":
            script.append({"o": "rreset"})
        elif h == "refused":
            script.append({"o": "refused"})
        elif h == "503":
            script.append(servers.ok(503, body_len=3))
        else:
            n_redirect += 1
            loc = f"/next{i}" if entry == "pool" else ("http://b.test/next%d" % i if i % 2 == 0 else "/next%d" % i)
            script.append(servers.ok(int(h), body_len=2, headers=[["Location", loc]]))
    srv = servers.ScriptServer(script)
    payload = reqwire.body_bytes(spec)
    fails: list[Failure] = []
    k0 = spec["k"] if spec else "none"
    bclass = {"gen": "oneshot", "notell": "oneshot", "badtell": "failedtell", "bytesio": "seekable", "shortread": "seekable", "stringio": "seekable", "file": "seekable", "textfile": "seekable", "none": "none", "array": "buffer-" + (spec or {}).get("code", "")}.get(k0, "inmemory")
    sig0 = {"entry": entry, "body": bclass}
    headers = {"X-T": "1"}
    if framing == "cl":
        headers["Content-Length"] = str(len(payload))
    elif framing == "te":
        headers["Transfer-Encoding"] = "chunked"
    with fakenet.Net(srv) as net:
        kw = {}
        if case.get("blocksize"):
            kw["blocksize"] = case["blocksize"]
        # the policy that allows the re-sends: every counter set | no overall limit (total=None, a documented setting)
        rshape = case.get("rshape", "all")
        if rshape not in ("all", "total-none"):
            raise core.InvalidCase
        retries = Retry(total=(5 if rshape == "all" else None), connect=5, read=5, status=5, other=5, redirect=5, allowed_methods=None, status_forcelist=[503], backoff_factor=0, respect_retry_after_header=False)
        obj = urllib3.HTTPConnectionPool("a.test", 80, maxsize=2, **kw) if entry == "pool" else urllib3.PoolManager(**kw)
        body = reqwire.make_body(spec)
        exc = None
        try:
            if entry == "pool":
                r = obj.urlopen(method, "/start", body=body, headers=headers, retries=retries, chunked=chunked)
            else:
                r = obj.urlopen(method, "http://a.test/start", body=body, headers=headers, retries=retries, chunked=chunked)
            r.data
        except UnrewindableBodyError as e:
            exc = e
        except BaseException as e:  # noqa: BLE001
            exc = e
        finally:
            try:
                obj.close() if entry == "pool" else obj.clear()
            except Exception:  # noqa: BLE001
                pass
        if srv.parse_errors:
            fails.append(Failure("framing", {**sig0, "what": "unparsable"}, f"{case}: server-side framing error {srv.parse_errors[:2]}; first bytes {bytes(net.sockets[0].tx[:200])!r}"))
            return fails
        atts = [a for a in srv.attempts if a["msg"] is not None]
        # leftover bytes on any socket = framing announced less than was sent
        for s in net.sockets:
            msgs, left, err = reqwire.parse_stream(bytes(s.tx))
            if left or err:
                fails.append(Failure("framing", {**sig0, "what": "leftover"}, f"{case}: socket #{s.sid} has bytes outside any framed request: {left[:80]!r} ({err})"))
        if fails:
            return fails
        body_live = spec is not None
        after_303 = False
        cur_method = method
        first_payload = None
        unrewindable = isinstance(exc, UnrewindableBodyError)
        for idx, a in enumerate(atts):
            msg = a["msg"]
            m = msg.request_line.split(b" ")[0].decode("latin-1")
            if m != cur_method:
                fails.append(Failure("resend-method", sig0, f"{case}: attempt {idx} used method {m}, expected {cur_method}"))
            has_cl = bool(msg.get("content-length"))
            has_te = bool(msg.get("transfer-encoding"))
            caller_framing = framing
            if has_cl and has_te:
                fails.append(Failure("framing", {**sig0, "what": "both"}, f"{case}: attempt {idx} carries both Content-Length and Transfer-Encoding"))
            if body_live:
                if caller_framing is None:
                    if spec["k"] in ("bytes", "bytearray", "memoryview", "str", "array") and not chunked:
                        want = "content-length"
                    else:
                        want = "chunked"
                else:
                    want = "content-length" if caller_framing == "cl" else "chunked"
            else:
                if chunked or framing == "te":
                    want = "chunked"  # chunking was requested / the caller's own framing header is kept
                elif caller_framing == "cl" and not after_303:
                    want = "content-length"
                elif cur_method.upper() in NOBODY:
                    want = "none"
                else:
                    want = "content-length"
            if msg.framing != want:
                fails.append(Failure("framing", {**sig0, "what": "choice", "attempt0": idx == 0}, f"{case}: attempt {idx} framing {msg.framing}, expected {want} (headers {msg.header_lines})"))
            if msg.framing == "chunked" and any(len(c) == 0 for c in msg.chunks):
                fails.append(Failure("framing", {**sig0, "what": "empty-chunk"}, f"{case}: attempt {idx} has an empty chunk before the terminator"))
            expected_payload = payload if body_live else b""
            if idx == 0:
                first_payload = msg.body
                if msg.body != expected_payload:
                    fails.append(Failure("payload", {**sig0, "what": "first"}, f"{case}: attempt 0 payload {msg.body[:60]!r} ({len(msg.body)} bytes), body is {expected_payload[:60]!r} ({len(expected_payload)} bytes)"))
            elif body_live and msg.body != first_payload:
                empty = msg.body == b""
                fails.append(Failure("resend-payload", {**sig0, "empty": empty, "after": ("redirect" if atts[idx - 1]["outcome"].get("status", 0) in (301, 302, 307, 308) else "retry")}, f"{case}: attempt {idx} re-sent {msg.body[:40]!r} ({len(msg.body)} bytes), first attempt sent {len(first_payload or b'')} bytes"))
            elif not body_live and msg.body != b"":
                fails.append(Failure("resend-payload", {**sig0, "what": "body-after-303"}, f"{case}: attempt {idx} carries a body after a 303"))
            # what the next attempt should look like
            o = a["outcome"]
            if o.get("o") == "resp" and o.get("status") == 303:
                cur_method = "GET"
                body_live = False
                after_303 = True
                if any(h.split(b":")[0].strip().lower() in (b"content-type", b"content-length", b"content-encoding", b"content-language") for h in msg.header_lines) and False:
                    pass
        # outcome of the call
        if exc is not None and not unrewindable:
            fails.append(Failure("call-failed", {**sig0, "exc": type(exc).__name__}, f"{case}: {type(exc).__name__}: {exc}"))
        if unrewindable and spec is not None and spec["k"] not in ("badtell",):
            fails.append(Failure("call-failed", {**sig0, "exc": "UnrewindableBodyError", "what": "rewindable-body"}, f"{case}: UnrewindableBodyError for a rewindable body"))
    return fails


def check_case(case):
    if case.get("kind") != "body":
        raise core.InvalidCase
    return run_case(case)


def nontrivial(case):
    n = len(reqwire.body_bytes(case["body"]))
    resend = len([h for h in case["history"] if h != "refused"]) > 1
    return (n > 0 and resend) or n in (7, 8, 9, 31)


def classes(case):
    spec = case["body"]
    out = ["kind:" + (spec["k"] if spec else "none"), "hist:" + ">".join(case["history"]), "entry:" + case["entry"]]
    if case.get("chunked"):
        out.append("chunked-flag")
    if case.get("framing"):
        out.append("caller-" + case["framing"])
    return out


def _mk(entry, method, kind, size, off, chunked, framing, blocksize, history):
    return {"kind": "body", "entry": entry, "method": method, "body": body_spec(kind, size, off), "chunked": chunked, "framing": framing, "blocksize": blocksize, "history": history}


def enum_cases(tier):
    # (1) framing clause: history [ok]
    for kind, size, method, chunked, framing in itertools.product(KINDS, SIZES, METHODS, (False, True), (None, "cl", "te")):
        if kind == "none" and size:
            continue
        if framing == "cl" and chunked:
            continue
        if tier == "quick" and method in ("OPTIONS", "TRACE", "PATCH", "FOO") and size not in (0, 9):
            continue
        yield _mk("pool", method, kind, size, 0, chunked, framing, 8, ["ok"])
    # (2) re-send clause
    for kind, size, history, entry in itertools.product(KINDS, SIZES, HISTORIES[1:], ("pool", "pm")):
        if kind == "none" and size:
            continue
        if tier == "quick" and (size in (1, 7, 31) or (len(history) > 2 and size != 9)):
            continue
        for method in ("POST", "PUT") if tier != "quick" else ("POST",):
            for off in (0, 3):
                if off and kind not in ("bytesio", "stringio", "file", "textfile", "notell", "badtell", "shortread"):
                    continue
                yield _mk(entry, method, kind, size, off, False, None, 8 if size != 31 else None, history)
                if size == 9 and off == 0:
                    yield dict(_mk(entry, method, kind, size, off, False, None, 8, history), rshape="total-none")
    if tier != "quick":
        for kind, size, history in itertools.product(KINDS, (0, 9), HISTORIES[1:9]):
            if kind == "none" and size:
                continue
            yield _mk("pm", "PUT", kind, size, 0, True, None, 8, history)
            yield _mk("pool", "DELETE", kind, size, 0, False, "te", 8, history)


def shards(tier, seed):
    n = sum(1 for _ in enum_cases(tier))
    out = [{"part": "enum", "tier": tier, "lo": a, "hi": b} for a, b in core.split_range(n, 32)]
    r = _scale(6000 if tier == "quick" else 200000)
    nsh = 16 if tier == "quick" else 32
    for i in range(nsh):
        out.append({"part": "random", "n": r // nsh, "seed": core.derive_seed(seed, "r", i)})
    return out


def run_shard(spec):
    col = core.Collector()
    if spec["part"] == "enum":
        for i, case in enumerate(enum_cases(spec["tier"])):
            if spec["lo"] <= i < spec["hi"]:
                col.case(case, nontrivial(case), classes(case), run_case(case), distinct_by_construction=True)
    else:
        from hypothesis import strategies as st

        strat = st.builds(
            _mk,
            st.sampled_from(["pool", "pm"]), st.sampled_from(METHODS), st.sampled_from(KINDS), st.integers(0, 40), st.integers(0, 12),
            st.booleans(), st.sampled_from([None, None, "cl", "te"]), st.sampled_from([None, 8, 3]),
            st.lists(st.sampled_from(["reset", "503", "301", "302", "303", "307", "308", "refused"]), max_size=2).map(lambda l: l + ["ok"]),
        )

        def body(case):
            if case["body"] is None and False:
                return
            if case["framing"] == "cl":
                case = dict(case, chunked=False, history=["ok"])
            if core.h64(core.canon(case)) % 4 == 0:
                case = dict(case, rshape="total-none")
            col.case(case, nontrivial(case), classes(case), run_case(case))

        core.hyp_run(strat, spec["n"], spec["seed"], body)
    return col


def presets():
    return [
        _mk("pool", "POST", "bytesio", 9, 0, False, None, 8, ["307", "ok"]),
        _mk("pm", "PUT", "bytesio", 9, 0, False, None, 8, ["307", "ok"]),
        _mk("pool", "POST", "file", 9, 3, False, None, 8, ["303", "ok"]),
        _mk("pool", "POST", "array-I", 9, 0, True, None, 8, ["ok"]),
        _mk("pool", "POST", "gen", 9, 0, False, None, 8, ["307", "ok"]),
    ]


def min_nontrivial(tier):
    return 1000
