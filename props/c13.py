"""C13 - a cut-off or corrupt response is never presented as complete."""
from __future__ import annotations

import gc
import os
import zlib

from vlib import core, fakenet, respgen
from vlib.core import Failure

PROP = "C13"
RULE = (
    "a case is a C12 response (payload, coding stack, framing, chunk sizes, segmentation, decode flag, read-call "
    "sequence + draining tail (incl. drain_conn(), which presents nothing: only the connection clause applies), direct connection | pool | preloading pool) plus ONE mutation: cut = the stream ends "
    "(EOF) after k body bytes, for EVERY k from 0 to len(body)-1; chunksize = one hex digit of a chunk-size line "
    "replaced by a non-hex byte, the line removed, the size replaced by a well-formed but impossible one (20 hex digits), or given a form that is not 1*HEXDIG but that int(x, 16) accepts (+5, -5, 0x5, a leading space, 5_0); flip = one byte of the encoded content xor-ed with consistent "
    "framing; clconflict = two different Content-Length values. The oracle is three-valued and computed from "
    "independent facts (framing arithmetic; zlib / zstandard run directly on the mutated content): MUST-RAISE, "
    "EITHER (cuts inside the terminating chunk line, truncated gzip/deflate without framing evidence, corruption in "
    "later gzip members), MUST-SUCCEED with exactly the reference bytes. Pool cases add a second request on the same "
    "pool. Non-trivial = a MUST-RAISE case whose draining pattern is not a single read()."
)
ASSUMPTIONS = [
    "the stream end is an orderly EOF (FIN); resets and timeouts belong to C01/C19",
    "zlib.decompressobj and zstandard's decompressobj, run directly on the mutated content, are the independent judges of 'undecodable' / 'incomplete'",
    "non-hex replacement bytes are taken from {g, Z, !}: bytes that Python's int(x, 16) (used by http.client and urllib3) can never accept",
    "on chunked responses one reader family is kept per response (known finding KF-C12-mix belongs to C12)",
]
EXHAUSTIVE = {"quick": False, "thorough": False}

TAILS = [["read", None], ["readloop", 1], ["readloop", 3], ["readloop", 64], ["read1loop", 2], ["read1loop", None], ["readintoloop", 2], ["stream", 1], ["stream", 7], ["stream", None], ["read_chunked", 2], ["read_chunked", None], ["iter", None]]


def _scale(n):
    return max(1, int(n * float(os.environ.get("VERIF_SCALE", "1"))))


# --------------------------------------------------------------------------- independent judges


def ref_decode_one(data: bytes, coding: str):
    """-> ('ok', bytes) | ('bad', why) | ('either', why)"""
    c = coding.strip().lower()
    if c == "identity":
        return "ok", data
    if c in ("gzip", "x-gzip"):
        out = b""
        first = True
        if not data:
            return "either", "empty gzip stream"
        while data:
            d = zlib.decompressobj(16 + zlib.MAX_WBITS)
            try:
                out += d.decompress(data)
                out += d.flush()
            except zlib.error as e:
                return ("bad", f"gzip first member: {e}") if first else ("either", "later gzip member corrupt")
            if not d.eof:
                return "either", "gzip member incomplete (no framing evidence)"
            data = d.unused_data
            first = False
        return "ok", out
    if c in ("deflate", "deflate-raw"):
        if not data:
            return "either", "empty deflate stream"
        res = []
        for wbits in (zlib.MAX_WBITS, -zlib.MAX_WBITS):
            d = zlib.decompressobj(wbits)
            try:
                o = d.decompress(data) + d.flush()
                res.append(("ok", o) if d.eof and not d.unused_data else ("either", "incomplete or trailing data"))
            except zlib.error as e:
                res.append(("bad", str(e)))
        if res[0][0] == "ok":
            return res[0]
        if res[0][0] == "bad" and res[1][0] == "bad":
            return "bad", "neither a zlib nor a raw deflate stream: " + res[0][1]
        if res[0][0] == "bad" and res[1][0] == "ok":
            # urllib3 falls back to raw deflate only if the zlib attempt failed before producing output
            return "either", "zlib attempt fails, raw deflate decodes"
        return "either", "deflate stream undecided"
    if c == "zstd":
        import zstandard

        if not data:
            return "either", "empty zstd stream"

        def feed(step):
            out = b""
            o = zstandard.ZstdDecompressor().decompressobj()
            try:
                for i in range(0, len(data), step):
                    piece = data[i : i + step]
                    while piece:
                        if o.eof:
                            o = zstandard.ZstdDecompressor().decompressobj()
                        out += o.decompress(piece)
                        piece = o.unused_data if o.eof else b""
            except zstandard.ZstdError as e:
                return "bad", f"zstd: {e}"
            if not o.eof:
                return "bad", "zstd frame incomplete"
            return "ok", out

        # the library's verdict can depend on how the input is fed (streaming skips some checks):
        # demand a verdict only where one-shot and byte-wise feeding agree
        a, b = feed(len(data)), feed(1)
        if a[0] == b[0] == "bad":
            return a
        if a == b:
            return a
        return "either", f"zstandard verdict depends on feeding: one-shot {a[0]}, byte-wise {b[0]}"
    raise ValueError(coding)


def ref_decode(content: bytes, codings):
    data = content
    for c in reversed([x for x in codings]):
        st, val = ref_decode_one(data, c)
        if st != "ok":
            return st, val
        data = val
    return "ok", data


LENIENT = {"plus": b"+", "minus": b"-", "0x": b"0x", "space": b" ", "under": b"_"}


def chunk_lines(body: bytes):
    """Offsets of the size lines of a well-formed chunked body: [(start, end_of_line_incl_crlf, size)]"""
    out = []
    pos = 0
    while True:
        e = body.index(b"\r\n", pos)
        n = int(body[pos:e].split(b";")[0], 16)
        out.append((pos, e + 2, n))
        if n == 0:
            return out
        pos = e + 2 + n + 2


# --------------------------------------------------------------------------- the case


def build(case):
    """-> (bytes to serve, eof flag, verdict, expected bytes | None, why)"""
    payload = respgen.payload_bytes(case["n"], case.get("pat", 0))
    codings = case.get("coding", [])
    content = respgen.encode(payload, codings, case.get("members", 1))
    decode = bool(case["decode"])
    mut = case["mut"]
    framing = case["framing"]
    m = mut["m"]
    if m == "flip":
        if not content:
            raise core.InvalidCase
        p = mut["at"] % len(content)
        content = content[:p] + bytes([content[p] ^ (mut["xor"] % 255 + 1)]) + content[p + 1 :]
    elif m == "trunc":  # shorter content under consistent framing
        if not content or not (0 < mut["drop"] <= len(content)):
            raise core.InvalidCase
        content = content[: len(content) - mut["drop"]]
    head, body = respgen.frame(content, case)
    eof = framing == "close" or bool(case.get("cl_list"))
    if case.get("cl_list") and (framing != "cl" or m == "clconflict"):
        raise core.InvalidCase
    verdict, expected, why = None, None, ""
    if m in ("flip", "trunc", "none"):
        if decode:
            st, val = ref_decode(content, codings)
            verdict, expected, why = {"ok": ("ok", val, ""), "bad": ("raise", None, val), "either": ("either", None, val)}[st]
        else:
            verdict, expected = "ok", content
        return head + body, eof, verdict, expected, why
    if m == "cut":
        k = mut["at"]
        if not (0 <= k < len(body)):
            raise core.InvalidCase
        served = head + body[:k]
        if framing == "cl":
            return served, True, "raise", None, f"{k} of {len(body)} announced body bytes arrived"
        if framing == "chunked":
            lines = chunk_lines(body)
            pos_term = lines[-1][0]
            if k <= pos_term:
                # is the cut inside the size line of a NON-terminal chunk, after one or more digits that are all zeros?
                zero_prefix = any(s0 < k < e0 and n0 != 0 and set(body[s0:k]) == {0x30} for s0, e0, n0 in lines)
                return served, True, "raise", None, f"stream ends at {k}, terminating chunk line starts at {pos_term}" + (" [cut-in-zero-prefixed-size]" if zero_prefix else "")
            return served, True, "either", None, "cut inside the terminating chunk line / final CRLF"
        # close-delimited: only the decoder can tell
        part = body[:k]
        if decode:
            st, val = ref_decode(part, codings)
            verdict, expected, why = {"ok": ("ok", val, ""), "bad": ("raise", None, val), "either": ("either", None, val)}[st]
        else:
            verdict, expected = "ok", part
        return served, True, verdict, expected, why
    if m == "chunksize":
        if framing != "chunked":
            raise core.InvalidCase
        lines = chunk_lines(body)
        s, e, n = lines[mut["idx"] % len(lines)]
        if mut["how"] == "remove":
            if n == 0:
                raise core.InvalidCase
            new = body[:s] + body[e:]
            nxt = new[s:]
            line = nxt[: nxt.index(b"\n") + 1] if b"\n" in nxt else nxt
            try:
                int(line.split(b";")[0], 16)
                return head + new, eof, "either", None, "chunk data happens to read as a size line"
            except ValueError:
                return head + new, eof, "raise", None, f"size line of chunk removed; data {line[:12]!r} is read as a size line"
        hexlen = len(body[s:e].split(b";")[0].rstrip(b"\r\n"))
        if mut["how"] in LENIENT:
            # not 1*HEXDIG, but Python's int(x, 16) takes it: "+5", "-5", "0x5", " 5", "5_0"
            if mut["how"] == "under":
                if hexlen < 2:
                    raise core.InvalidCase
                new = body[: s + 1] + b"_" + body[s + 1 :]
            else:
                new = body[:s] + LENIENT[mut["how"]] + body[s:]
            return head + new, eof, "raise", None, f"chunk-size line {new[s:].split(b'\n', 1)[0]!r} is not 1*HEXDIG [lenient-size:{mut['how']}]"
        if mut["how"] == "huge":
            # a well-formed size that no stream can satisfy (larger than the address space): the bytes received end
            # inside that chunk
            new = body[:s] + b"f" * 20 + body[s + hexlen :]
            return head + new, True, "raise", None, "chunk announces 2**80-1 bytes, the stream ends inside it"
        if mut["how"] == "cr":
            # the CR that ends the size line becomes a letter: "5\r\n" -> "5X\n" (valid digits followed by junk)
            if b";" in body[s:e]:
                raise core.InvalidCase
            p = e - 2
            new = body[:p] + b"X" + body[p + 1 :]
        else:
            p = s + mut.get("digit", 0) % hexlen
            rep = {"g": b"g", "Z": b"Z", "!": b"!"}[mut["how"]]
            new = body[:p] + rep + body[p + 1 :]
        line = new[s:].split(b"\n", 1)[0]
        try:
            int(line.split(b";")[0], 16)
            return head + new, eof, "either", None, f"size line {line!r} still reads as a number"
        except ValueError:
            return head + new, eof, "raise", None, f"chunk-size line {line!r} is not hexadecimal"
    if m == "clconflict":
        if framing != "cl":
            raise core.InvalidCase
        a, b = len(body), len(body) + mut.get("delta", 1)
        if mut.get("form") == "comma":
            head2 = head.replace(b"Content-Length: %d\r\n" % a, b"Content-Length: %d, %d\r\n" % (a, b))
        else:
            head2 = head.replace(b"Content-Length: %d\r\n" % a, b"Content-Length: %d\r\nContent-Length: %d\r\n" % (a, b))
        if mut.get("delta", 1) == 0 and mut.get("form") == "comma":
            # http.client cannot parse "N, N" and falls back to read-until-close: outside urllib3's control
            return head2 + body, False, "either", None, "duplicate equal Content-Length in one field"
        if mut.get("delta", 1) == 0:
            if decode:
                st, val = ref_decode(content, codings)
                if st != "ok":
                    raise core.InvalidCase
                return head2 + body, False, "ok", val, "duplicate equal Content-Length"
            return head2 + body, False, "ok", content, "duplicate equal Content-Length"
        return head2 + body, False, "raise", None, f"conflicting Content-Length {a} / {b}"
    raise core.InvalidCase


def _run(case) -> list[Failure]:
    import urllib3
    from urllib3 import exceptions as ue
    from urllib3.connection import HTTPConnection

    from props import c12

    if case.get("kind") != "cut" or not c12.valid(case) or case.get("via") not in ("conn", "pool", "pool-preload"):
        raise core.InvalidCase
    if case["tail"][0] not in [t[0] for t in TAILS] + ["data", "drain"] or (case["tail"][0] in ("readloop", "readintoloop") and not case["tail"][1]):
        raise core.InvalidCase
    for api, arg in case["ops"]:
        if api not in ("read", "read1", "readinto") or (arg is not None and (not isinstance(arg, int) or arg < 0)) or (api == "readinto" and not arg):
            raise core.InvalidCase
    if case["framing"] == "chunked" and respgen.families(case) == {"A", "B"}:
        raise core.InvalidCase
    served, eof, verdict, expected, why = build(case)
    decode = bool(case["decode"])
    # the response-level default may differ from what each call asks for (the way `requests` drives urllib3: created with
    # decode_content=False, read with decode_content=True); only calls that take the keyword can be driven that way
    ctor_decode = case.get("ctor_decode", decode)
    if ctor_decode is not decode and (ctor_decode is not False or not decode or case.get("via", "conn") != "conn" or case["tail"][0] in ("iter", "data", "drain", "readintoloop") or any(o[0] == "readinto" for o in case["ops"])):
        raise core.InvalidCase
    via = case.get("via", "conn")
    drain = case["tail"][0] == "drain"
    if drain and via != "pool":
        raise core.InvalidCase
    second = fakenet.response_bytes(200, body=b"SECOND-RESPONSE")
    srv = respgen.OneShot(served, case.get("seg"), eof=eof, second=second)
    mut = case["mut"]
    sig = {"mut": mut["m"], "framing": case["framing"], "coded": bool([c for c in case.get("coding", []) if c != "identity"]), "decode": decode, "tail": case["tail"][0], "via": via}
    if why.endswith("[cut-in-zero-prefixed-size]"):
        sig["zero_prefixed_size_cut"] = True
    if "[lenient-size:" in why:
        sig["lenient_size"] = why.rsplit("[lenient-size:", 1)[1].rstrip("]")
    fails: list[Failure] = []
    ok_types = (ue.ProtocolError, ue.DecodeError, ue.IncompleteRead) + ((ue.InvalidHeader,) if mut["m"] == "clconflict" else ())
    with fakenet.Net(srv) as net:
        pool = None
        resp = None
        err = None
        pieces = []
        try:
            if via == "conn":
                conn = HTTPConnection("h.test", 80)
                conn.request("GET", "/", preload_content=False, decode_content=ctor_decode)
                resp = conn.getresponse()
            else:
                pool = urllib3.HTTPConnectionPool("h.test", 80, retries=False, maxsize=1)
                resp = pool.urlopen("GET", "/", preload_content=(via == "pool-preload"), decode_content=decode)
        except BaseException as e:  # noqa: BLE001
            if type(e).__name__ == "CaseTimeout":
                raise
            err = e
        if err is None:
            pieces, err = respgen.consume(resp, case["ops"], case["tail"], decode, len(served) * 4 + 64)
        got = b"".join(p[2] for p in pieces)
        if err is not None:
            err.__traceback__ = None  # frames would keep the response (and its socket reader) alive
            if err.__cause__ is not None:
                err.__cause__.__traceback__ = None
            if err.__context__ is not None:
                err.__context__.__traceback__ = None
        brief = f"{_brief(case)} [{why}]"
        if err is not None and not isinstance(err, ue.HTTPError):
            fails.append(Failure("error-type", {**sig, "exc": type(err).__name__}, f"{brief}: raised {type(err).__name__}: {err} (not a urllib3 error)"))
        elif drain and err is None:
            # drain_conn() discards the rest and documents no error; it presents nothing.  Only the clause about the
            # connection applies (below).  (An error of an earlier call of the sequence is judged like any other.)
            pass
        elif verdict == "raise":
            if err is None:
                fails.append(Failure("presented-complete", sig, f"{brief}: every call returned normally ({len(got)} bytes in {len(pieces)} pieces) although the response is cut off / corrupt"))
            elif not isinstance(err, ok_types):
                fails.append(Failure("error-type", {**sig, "exc": type(err).__name__}, f"{brief}: raised {type(err).__name__}: {err}"))
        elif verdict == "ok":
            if err is not None:
                fails.append(Failure("valid-data-error", {**sig, "exc": type(err).__name__}, f"{brief}: {type(err).__name__}: {err} on a response the independent decoder accepts"))
            elif got != expected:
                fails.append(Failure("same-bytes", sig, f"{brief}: got {len(got)} bytes, independent decoding gives {len(expected)}"))
        if mut["m"] == "cut":
            full = respgen.payload_bytes(case["n"], case.get("pat", 0))
            if not decode:
                full = respgen.encode(full, case.get("coding", []), case.get("members", 1))
            if not full.startswith(got):
                fails.append(Failure("prefix", sig, f"{brief}: bytes delivered before the end are not a prefix of the body ({got[:40]!r}...)"))
        # ---- pool level: the connection is closed and never reused
        if pool is not None and verdict == "raise" and (err is not None or drain) and not fails:
            second_state = "ok"
            try:
                if resp is not None:
                    resp.release_conn()
                gc.collect()
                first = net.sockets[0]
                still_open = not first.really_closed
                try:
                    r2 = pool.urlopen("GET", "/second", preload_content=True)
                    if r2.data != b"SECOND-RESPONSE":
                        second_state = "wrong-body"
                except BaseException as e:  # noqa: BLE001
                    if type(e).__name__ == "CaseTimeout":
                        raise
                    second_state = "failed:" + type(e).__name__
                same_socket = first.sid in [s.sid for s in net.sockets if b"/second" in bytes(s.tx)]
                if still_open or same_socket or second_state != "ok":
                    fails.append(Failure(
                        "conn-not-discarded",
                        {"mut": mut["m"], "framing": case["framing"], "same_socket": same_socket, "second": second_state, "error": type(err).__name__ if err is not None else "drained", **({"zero_prefixed_size_cut": True} if sig.get("zero_prefixed_size_cut") else {}), **({"lenient_size": sig["lenient_size"]} if sig.get("lenient_size") else {})},
                        f"{brief}: after {type(err).__name__ if err is not None else 'drain_conn()'} the socket #{first.sid} that carried the broken response is "
                        f"{'still open' if still_open else 'closed'}; the next request on the pool was {'written to that same socket' if same_socket else 'sent on another socket'} and {second_state}",
                    ))
            finally:
                pass
        try:
            if resp is not None:
                resp.close()
            if pool is not None:
                pool.close()
        except Exception:  # noqa: BLE001
            pass
    return fails, verdict


def _brief(case):
    return {k: v for k, v in case.items() if k not in ("kind",)}


def run_case(case):
    res, timed_out = core.guarded(_run, case)
    if timed_out:
        return [Failure("terminates", {"framing": case["framing"], "tail": case["tail"][0], "mut": case["mut"]["m"]}, f"{_brief(case)}: reading did not finish within the watchdog limit")], "?"
    return res


def check_case(case):
    if case.get("kind") != "cut":
        raise core.InvalidCase
    return run_case(case)[0]


def nontrivial(case, verdict):
    return verdict == "raise" and (case["tail"] != ["read", None] or bool(case["ops"]))


def classes(case, verdict):
    out = ["verdict:" + verdict, "mut:" + case["mut"]["m"], "framing:" + case["framing"], "coding:" + ("+".join(case.get("coding", [])) or "identity"), "tail:" + case["tail"][0], "via:" + case.get("via", "conn"), "decode:" + str(case["decode"])]
    if case["mut"]["m"] == "chunksize":
        out.append("chunksize:" + case["mut"]["how"])
    return out


def mk(n, pat, coding, members, framing, chunk_sizes, ext, seg, decode, ops, tail, via, mut):
    return {"kind": "cut", "n": n, "pat": pat, "coding": coding, "members": members, "framing": framing, "chunk_sizes": chunk_sizes, "ext": ext, "seg": seg, "decode": decode, "ops": ops, "tail": tail, "via": via, "mut": mut}


def mutations(base, dense: bool, salt: int):
    """All single mutations of one response (every cut position; every chunk-size line; flips)."""
    payload = respgen.payload_bytes(base["n"], base.get("pat", 0))
    content = respgen.encode(payload, base.get("coding", []), base.get("members", 1))
    head, body = respgen.frame(content, base)
    step = 1 if dense or len(body) <= 400 else max(1, len(body) // 150)
    ks = sorted(set(range(0, len(body), step)) | set(range(max(0, len(body) - 12), len(body))))
    for k in ks:
        yield {"m": "cut", "at": k}
    if base["framing"] == "chunked":
        lines = chunk_lines(body)
        idxs = range(len(lines)) if len(lines) <= 12 else sorted({0, 1, len(lines) - 2, len(lines) - 1, salt % len(lines)})
        for i in idxs:
            for how in ("g", "Z", "!"):
                yield {"m": "chunksize", "idx": i, "how": how, "digit": (salt + i) % 3}
            if not base.get("ext"):
                yield {"m": "chunksize", "idx": i, "how": "cr"}
            if lines[i][2] != 0:
                yield {"m": "chunksize", "idx": i, "how": "remove"}
            if lines[i][2] != 0 and i in (0, len(lines) - 2):
                yield {"m": "chunksize", "idx": i, "how": "huge"}
            if i in (0, len(lines) - 1):
                for how in LENIENT:
                    if how != "under" or len(body[lines[i][0] : lines[i][1]].split(b";")[0].rstrip(b"\r\n")) >= 2:
                        yield {"m": "chunksize", "idx": i, "how": how}
    coded = [c for c in base.get("coding", []) if c != "identity"]
    if coded and content:
        fstep = 1 if dense or len(content) <= 120 else max(1, len(content) // 60)
        for p in range(0, len(content), fstep):
            yield {"m": "flip", "at": p, "xor": (salt * 31 + p * 7) % 255}
        for drop in sorted({1, 2, 3, 4, 8, len(content) // 2, len(content)} - {0}):
            if drop <= len(content):
                yield {"m": "trunc", "drop": drop}
    if base["framing"] == "cl" and not base.get("cl_list"):
        for form in ("two", "comma"):
            for delta in (1, 0):
                yield {"m": "clconflict", "form": form, "delta": delta}


EX_RESPONSES = [(n, coding, members, framing) for coding, members in (([], 1), (["gzip"], 1), (["gzip"], 2), (["deflate"], 1), (["deflate-raw"], 1), (["zstd"], 1), (["zstd"], 2), (["gzip", "zstd"], 1), (["zstd", "gzip"], 1)) for framing in ("cl", "chunked", "close") for n in (0, 1, 9, 40)]
EX_OPS = [[], [["read", 2]], [["read1", 3]], [["readinto", 5]], [["read", 0], ["read", 7]]]


def ex_cases(tier):
    from props import c12

    i = 0
    for n, coding, members, framing in EX_RESPONSES:
        for tail in TAILS + [["data", None], ["drain", None]]:
            for ops in EX_OPS:
                for seg in (1, None):
                    for via in (("conn", "pool") if tail[0] not in ("data", "drain") else (("pool-preload",) if tail[0] == "data" else ("pool",))):
                        if tier == "quick" and ((via == "pool" and (ops or seg)) or n == 0 or len(ops) > 1 or (ops and seg) or (ops and ops[0][0] == "readinto")):
                            continue
                        if tail[0] == "data" and ops:
                            continue
                        i += 1
                        base = mk(n, 0, coding, members, framing, [3, 5] if framing == "chunked" else [], (i % 2 == 0) and framing == "chunked", seg, True, ops, tail, via, None)
                        if not c12.valid(base) or (framing == "chunked" and respgen.families(base) == {"A", "B"}):
                            continue
                        yield base
                        if coding and via == "conn" and tail[0] not in ("iter", "readintoloop") and not any(o[0] == "readinto" for o in ops) and (tier != "quick" or (n == 40 and not ops)):
                            yield dict(base, ctor_decode=False)  # response default off, per-call decoding on (seed C13-H)
                        if framing == "cl" and coding in ([], ["gzip"]) and members == 1:
                            yield dict(base, cl_list=True)  # Content-Length: N, N
                        if framing == "chunked" and coding in ([], ["gzip"]) and members == 1:
                            yield dict(base, hexfmt=("X", "04x")[i % 2])  # chunk sizes in upper case / with leading zeros


def _hyp():
    from hypothesis import strategies as st

    from props import c12

    sizes = st.one_of(st.integers(0, 160), st.sampled_from([0, 1, 2, 300, 700, 5000, 70000]))
    nvals = st.sampled_from([1, 2, 3, 7, 64, 1000])
    op = st.one_of(st.tuples(st.just("read"), nvals), st.tuples(st.just("read1"), nvals), st.tuples(st.just("read1"), st.none()), st.tuples(st.just("readinto"), nvals), st.tuples(st.just("read"), st.just(0))).map(list)
    tail = st.one_of(
        st.just(["read", None]), st.tuples(st.just("readloop"), nvals).map(list), st.tuples(st.just("read1loop"), st.one_of(nvals, st.none())).map(list),
        st.tuples(st.just("readintoloop"), nvals).map(list), st.tuples(st.just("stream"), st.sampled_from([1, 7, 65536, None, 3, 100])).map(list),
        st.tuples(st.just("read_chunked"), st.sampled_from([None, 1, 2, 5, 40, 1000])).map(list), st.just(["iter", None]), st.just(["data", None]), st.just(["drain", None]),
    )
    coding = st.one_of(st.sampled_from(c12.CODINGS), st.sampled_from(c12.CODINGS[1:]), st.sampled_from(c12.STACKS))

    @st.composite
    def base(draw):
        n = draw(sizes)
        cod = draw(coding)
        members = draw(st.sampled_from([1, 1, 2, 3])) if cod and cod[-1] in ("gzip", "zstd", "x-gzip") else 1
        framing = draw(st.sampled_from(["cl", "chunked", "close"]))
        cs = draw(st.lists(st.integers(1, 40), min_size=0, max_size=4)) if framing == "chunked" else []
        ext = draw(st.booleans()) if framing == "chunked" else False
        big = n > 1000
        seg = draw(st.sampled_from([None, 4096, 1000]) if big else st.sampled_from([None, 1, 2, 5, 17, 100]))
        if big and framing == "chunked" and not cs:
            cs = [4000]
        decode = draw(st.sampled_from([True, True, True, False]))
        t = draw(tail)
        ops = draw(st.lists(op, max_size=3))
        via = draw(st.sampled_from(["conn", "conn", "pool"]))
        if t[0] == "data":
            via, ops = "pool-preload", []
        if t[0] == "drain":
            via = "pool"
        if t[0] == "read_chunked" and framing != "chunked":
            framing, cs = "chunked", cs or [7]
        if t[0] == "iter":
            decode = True
        c = mk(n, draw(st.integers(0, 50)), cod, members, framing, cs, ext, seg, decode, ops, t, via, None)
        if framing == "cl" and draw(st.integers(0, 3)) == 0:
            c["cl_list"] = True  # Content-Length: N, N
        if framing == "chunked":
            c["hexfmt"] = draw(st.sampled_from(["x", "x", "X", "04x"]))
        if framing == "chunked" and respgen.families(c) == {"A", "B"}:
            c["ops"] = []
        if big:
            c["ops"] = [o for o in c["ops"] if not (o[1] in (1, 2, 3))]
            if c["tail"][0] in ("readloop", "read1loop", "readintoloop", "stream", "read_chunked") and c["tail"][1] in (1, 2, 3, 7):
                c["tail"] = [c["tail"][0], 1000]
        c["_salt"] = draw(st.integers(0, 10_000))
        if c["decode"] and c["via"] == "conn" and c["tail"][0] not in ("iter", "data", "drain", "readintoloop") and not any(o[0] == "readinto" for o in c["ops"]) and draw(st.integers(0, 3)) == 0:
            c["ctor_decode"] = False  # response created with decode_content=False, every call asks for decoding
        return c

    return base()


def big_cases(tier):
    """Large bodies (several zstd blocks / deflate windows) cut near the end or inside: every tail x framing."""
    k = 0
    for coding, members in ((["zstd"], 1), (["gzip"], 1), (["deflate"], 1), (["gzip", "zstd"], 1), (["zstd"], 2)):
        for framing in ("cl", "chunked", "close"):
            for tail in TAILS + [["data", None]]:
                t = list(tail)
                if t[0] in ("readloop", "read1loop", "readintoloop", "stream", "read_chunked") and t[1] in (1, 2, 3, 7):
                    t[1] = 5000
                for mut in ({"m": "trunc", "drop": 1}, {"m": "trunc", "drop": 5}, {"m": "trunc", "drop": 700}, {"m": "flip", "at": -3, "xor": 9}):
                    k += 1
                    if tier == "quick" and k % 2:
                        continue
                    via = "pool-preload" if t[0] == "data" else ("conn", "pool")[k % 2]
                    from props import c12

                    case = mk(300000, k % 7, coding, members, framing, [16384] if framing == "chunked" else [], False, (4096, None)[k % 2], True, [], t, via, mut)
                    if c12.valid(case):
                        yield case


def shards(tier, seed):
    nbig = sum(1 for _ in big_cases(tier))
    big = [{"part": "big", "tier": tier, "lo": a, "hi": b} for a, b in core.split_range(nbig, 16)]
    return big + _shards(tier, seed)


def _shards(tier, seed):
    total = sum(1 for _ in ex_cases(tier))
    out = [{"part": "exhaustive", "tier": tier, "lo": a, "hi": b} for a, b in core.split_range(total, 32 if tier == "quick" else 96)]
    n = _scale(160 if tier == "quick" else 6000)
    nsh = 16 if tier == "quick" else 64
    for i in range(nsh):
        out.append({"part": "random", "n": max(1, n // nsh), "seed": core.derive_seed(seed, "r", i)})
    return out


def _eval(col, case, distinct=False):
    try:
        fails, verdict = run_case(case)
    except core.InvalidCase:
        col.note("invalid_generated")
        return
    nt = nontrivial(case, verdict)
    if distinct and not fails and col.samples.get("verdict:" + verdict):
        col.evaluations += 1
        col.nontrivial_counted += 1 if nt else 0
        for c in classes(case, verdict):
            col.classes[c] += 1
        return
    col.case(case, nt, classes(case, verdict), fails, distinct_by_construction=distinct)


def run_shard(spec):
    col = core.Collector()
    if spec["part"] == "exhaustive":
        for i, base in enumerate(ex_cases(spec["tier"])):
            if not (spec["lo"] <= i < spec["hi"]):
                continue
            for mut in mutations(base, True, i):
                _eval(col, dict(base, mut=mut), distinct=True)
    elif spec["part"] == "big":
        for i, case in enumerate(big_cases(spec["tier"])):
            if spec["lo"] <= i < spec["hi"]:
                _eval(col, case)
    else:

        def body(base):
            salt = base.pop("_salt")
            col.note("responses")
            for mut in mutations(base, False, salt):
                _eval(col, dict(base, mut=mut))

        core.hyp_run(_hyp(), spec["n"], spec["seed"], body)
    return col


def presets():
    z = lambda **kw: mk(kw.get("n", 100), 0, kw.get("coding", ["zstd"]), kw.get("members", 1), kw.get("framing", "cl"), kw.get("cs", []), False, None, True, kw.get("ops", []), kw.get("tail", ["read", None]), kw.get("via", "conn"), kw["mut"])  # noqa: E731
    return [
        z(tail=["readloop", 7], mut={"m": "trunc", "drop": 3}),  # D4
        z(tail=["stream", 5], mut={"m": "trunc", "drop": 3}, framing="close"),  # D4
        z(coding=["gzip", "zstd"], tail=["read", None], mut={"m": "trunc", "drop": 2}),
        z(coding=["zstd", "gzip"], tail=["read", None], mut={"m": "flip", "at": 30, "xor": 5}),  # D5 neighbourhood
        z(coding=[], framing="chunked", cs=[7], tail=["stream", 3], mut={"m": "cut", "at": 20}),
        z(coding=[], framing="cl", tail=["data", None], via="pool-preload", mut={"m": "cut", "at": 20}),
    ]


def min_nontrivial(tier):
    return 5000
