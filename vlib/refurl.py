"""H5 (part): independent reference reading of URLs, written from RFC 3986 / RFC 6874.

Nothing here imports urllib3.  Used by C14 (host agreement), C15 (wire
expectations), C05 (reference resolution) and C10 (target decoding relation).
"""
from __future__ import annotations

import typing

HEX = set("0123456789abcdefABCDEF")
ALPHA = set("abcdefghijklmnopqrstuvwxyzABCDEFGHIJKLMNOPQRSTUVWXYZ")
DIGIT = set("0123456789")
UNRESERVED = ALPHA | DIGIT | set("-._~")
SUB_DELIMS = set("!$&'()*+,;=")
USERINFO_OK = UNRESERVED | SUB_DELIMS | {":"}
PCHAR_OK = USERINFO_OK | {"@"}
PATH_OK = PCHAR_OK | {"/"}
QUERY_OK = PATH_OK | {"?"}
FRAGMENT_OK = QUERY_OK


class Ref(typing.NamedTuple):
    scheme: str | None  # as written
    has_authority: bool
    userinfo: str | None  # raw; None when absent
    host: str  # raw host text ('' when empty/absent)
    port: str | None  # raw port text after the last ':' outside brackets; None when no ':'
    path: str
    query: str | None
    fragment: str | None


def leading_scheme(url: str) -> str | None:
    """`ALPHA *( ALPHA / DIGIT / "+" / "-" ) ":"` at the start (the spelling urllib3
    documents for deciding whether an input such as 'google.com:80' has a scheme;
    '.' is deliberately not a scheme character for that decision)."""
    if not url or url[0] not in ALPHA:
        return None
    i = 1
    while i < len(url) and (url[i] in ALPHA or url[i] in DIGIT or url[i] in "+-"):
        i += 1
    if i < len(url) and url[i] == ":":
        return url[:i]
    return None


def split(url: str) -> Ref:
    """Five-component split with urllib3's documented best-effort rule for
    scheme-less input: a string that neither starts with a scheme nor with '/'
    is read as if it started with '//' (authority first)."""
    scheme = leading_scheme(url)
    if scheme is not None:
        rest = url[len(scheme) + 1 :]
    elif url.startswith("/"):
        rest = url
    else:
        rest = "//" + url
    # fragment, query
    fragment = None
    i = rest.find("#")
    if i >= 0:
        rest, fragment = rest[:i], rest[i + 1 :]
    query = None
    i = rest.find("?")
    if i >= 0:
        rest, query = rest[:i], rest[i + 1 :]
    has_auth = rest.startswith("//")
    userinfo = None
    host = ""
    port = None
    path = rest
    if has_auth:
        j = 2
        while j < len(rest) and rest[j] not in "/\\":
            j += 1
        authority, path = rest[2:j], rest[j:]
        k = authority.rfind("@")
        if k >= 0:
            userinfo, hostport = authority[:k], authority[k + 1 :]
        else:
            hostport = authority
        if hostport.startswith("["):
            e = hostport.find("]")
            if e >= 0:
                host, tail = hostport[: e + 1], hostport[e + 1 :]
                if tail.startswith(":"):
                    port = tail[1:]
                elif tail:
                    host, port = hostport, None  # junk after ']' stays part of the host text
            else:
                host = hostport
        else:
            c = hostport.rfind(":")
            if c >= 0:
                host, port = hostport[:c], hostport[c + 1 :]
            else:
                host = hostport
    return Ref(scheme, has_auth, userinfo, host, port, path, query, fragment)


def all_pct_valid(s: str) -> bool:
    i = 0
    while True:
        i = s.find("%", i)
        if i < 0:
            return True
        if not (i + 2 < len(s) and s[i + 1] in HEX and s[i + 2] in HEX):
            return False
        i += 3


def pct_decode_bytes(s: str) -> bytes:
    """Percent-decode every %HH; other characters as UTF-8 (surrogates passed)."""
    out = bytearray()
    i = 0
    while i < len(s):
        ch = s[i]
        if ch == "%" and i + 2 < len(s) and s[i + 1] in HEX and s[i + 2] in HEX:
            out.append(int(s[i + 1 : i + 3], 16))
            i += 3
        else:
            out += ch.encode("utf-8", "surrogatepass")
            i += 1
    return bytes(out)


def literal_or_decoded(s: str) -> bytes:
    """The byte meaning of a raw component: if every '%' starts a valid escape the
    component is 'already encoded' and is decoded; otherwise it is taken literally."""
    if all_pct_valid(s):
        return pct_decode_bytes(s)
    # Mixed component: RFC 3986 gives it no meaning.  urllib3 documents that it
    # re-encodes such a component as a whole; the hex digits of the (valid)
    # escapes inside it are case-normalised first (RFC 3986 section 6.2.2.1 makes
    # %aa and %AA equivalent), everything else is literal.
    out = []
    i = 0
    while i < len(s):
        if s[i] == "%" and i + 2 < len(s) and s[i + 1] in HEX and s[i + 2] in HEX:
            out.append(s[i : i + 3].upper())
            i += 3
        else:
            out.append(s[i])
            i += 1
    return "".join(out).encode("utf-8", "surrogatepass")


def only_chars_and_upper_escapes(s: str, ok: set[str]) -> bool:
    i = 0
    n = len(s)
    while i < n:
        ch = s[i]
        if ch == "%":
            if not i + 2 < n:
                return False
            a, b = s[i + 1], s[i + 2]
            if a not in "0123456789ABCDEF" or b not in "0123456789ABCDEF":
                return False
            i += 3
        elif ch in ok:
            i += 1
        else:
            return False
    return True


def remove_dot_segments(path: str) -> str:
    """RFC 3986 section 5.2.4, literally."""
    inp = path
    out: list[str] = []
    while inp:
        if inp.startswith("../"):
            inp = inp[3:]
        elif inp.startswith("./"):
            inp = inp[2:]
        elif inp.startswith("/./"):
            inp = inp[2:]
        elif inp == "/.":
            inp = "/"
        elif inp.startswith("/../"):
            inp = inp[3:]
            if out:
                out.pop()
        elif inp == "/..":
            inp = "/"
            if out:
                out.pop()
        elif inp in (".", ".."):
            inp = ""
        else:
            j = inp.find("/", 1)
            if j < 0:
                out.append(inp)
                inp = ""
            else:
                out.append(inp[:j])
                inp = inp[j:]
    return "".join(out)


def resolve(base: str, ref: str) -> str:
    """RFC 3986 section 5.2.2 reference resolution (strict), on strings.
    `base` must be absolute with an authority."""
    b = split(base)
    r_scheme = leading_scheme(ref)
    # split ref without the scheme-less '//' rule
    rest = ref[len(r_scheme) + 1 :] if r_scheme is not None else ref
    frag = None
    i = rest.find("#")
    if i >= 0:
        rest, frag = rest[:i], rest[i + 1 :]
    query = None
    i = rest.find("?")
    if i >= 0:
        rest, query = rest[:i], rest[i + 1 :]
    r_auth = None
    r_path = rest
    if rest.startswith("//"):
        j = 2
        while j < len(rest) and rest[j] != "/":
            j += 1
        r_auth, r_path = rest[2:j], rest[j:]
    b_auth = None
    if b.has_authority:
        # reconstruct base authority text
        tmp = base[len(b.scheme) + 1 :] if b.scheme is not None else base
        j = 2
        while j < len(tmp) and tmp[j] not in "/?#":
            j += 1
        b_auth = tmp[2:j]
    if r_scheme is not None:
        t_scheme, t_auth, t_path, t_query = r_scheme, r_auth, remove_dot_segments(r_path), query
    else:
        if r_auth is not None:
            t_auth, t_path, t_query = r_auth, remove_dot_segments(r_path), query
        else:
            if r_path == "":
                t_path = b.path
                t_query = query if query is not None else b.query
            else:
                if r_path.startswith("/"):
                    t_path = remove_dot_segments(r_path)
                else:
                    if b_auth is not None and b.path == "":
                        merged = "/" + r_path
                    else:
                        k = b.path.rfind("/")
                        merged = b.path[: k + 1] + r_path
                    t_path = remove_dot_segments(merged)
                t_query = query
            t_auth = b_auth
        t_scheme = b.scheme
    out = ""
    if t_scheme is not None:
        out += t_scheme + ":"
    if t_auth is not None:
        out += "//" + t_auth
    out += t_path
    if t_query is not None:
        out += "?" + t_query
    if frag is not None:
        out += "#" + frag
    return out
