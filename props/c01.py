"""C01 - a pool never loses, duplicates or leaks connection slots, whatever the outcome."""
from __future__ import annotations

import gc
import itertools
import os

from vlib import core, fakenet, nulltls, servers
from vlib.core import Failure

PROP = "C01"
RULE = (
    "a case is a HISTORY: pool kind (direct http | direct https | forwarding proxy | CONNECT tunnel | CONNECT tunnel through an https proxy = TLS in TLS) x maxsize 1..3 x block x number of addresses the host resolves to (1..3, only the last one answers) x "
    "retries policy x preload_content x release_conn, a global per-attempt outcome script of <= 6 outcomes from 26 kinds "
    "(connect refused / timeout / DNS error / TLS failure / CONNECT refused / BaseException at connect; EPIPE / EPIPE with an early readable reply / reset / other "
    "OSError / BaseException while sending head or body; read timeout / reset / EOF / garbage / short body then EOF or timeout "
    "/ BaseException while receiving; 200 / 302 / 503 keep-alive or close, Content-Length / chunked / close-delimited), and "
    "1-4 requests each with a disposal (read all, read k then release, release unread, drain, close, read k then close, "
    "stream, hold until the end then release). After every response is disposed the pool is inspected: exactly maxsize slots, "
    "no connection twice, every socket not idle in the pool closed, never more than maxsize open sockets when blocking, every "
    "failure a urllib3 exception or the injected interrupt itself; then one clean request must still work and the invariants "
    "are re-checked. Non-trivial = the history has a fault or a non-2xx outcome AND a later request."
)
ASSUMPTIONS = [
    "vlib/servers.py ScriptServer on vlib/fakenet.py: every fault is injected at the socket seam; https and tunnels use the null TLS layer",
    "for preload_content=True with release_conn=False only release_conn / drain_conn / read() / close() count as disposals (urlopen docstring)",
    "preload_content=False with release_conn=True (connection returned while the body is unread) is not generated",
    "block=True pools are used with pool_timeout=0.01 so that an exhausted pool reports EmptyPoolError instead of blocking the harness",
]
EXHAUSTIVE = {"quick": False, "thorough": False}

KINDS = ["http", "https", "fwd", "tunnel", "tunnel-tls"]
FAULTS_CONNECT = ["refused", "ctimeout", "gaierror", "cbase", "tlsfail", "connect_refused"]
FAULTS_SEND = [{"o": k, "at": at} for k in ("epipe", "sreset", "sother", "sbase", "epipe_reply") for at in ("head", "body")]
FAULTS_RECV = ["rtimeout", "rreset", "eof", "garbage", "short_eof", "short_timeout", "rbase", "rssl"]
RESPS = [
    {"o": "resp", "status": 200, "keep": True}, {"o": "resp", "status": 200, "keep": False}, {"o": "resp", "status": 200, "framing": "chunked"},
    {"o": "resp", "status": 200, "framing": "close"}, {"o": "resp", "status": 503, "keep": True}, {"o": "resp", "status": 503, "keep": False},
    {"o": "resp", "status": 302, "keep": True, "loc": "/r"}, {"o": "resp", "status": 302, "keep": False, "loc": "/r"}, {"o": "resp", "status": 200, "body_len": 3000, "seg": 700},
    {"o": "resp", "status": 204}, {"o": "resp", "status": 200, "then": "stray"},
    # responses urllib3 discards itself (redirect / status retry) that have NO body to drain
    {"o": "resp", "status": 302, "keep": True, "loc": "/r", "body_len": 0}, {"o": "resp", "status": 503, "keep": True, "body_len": 0}, {"o": "resp", "status": 200, "body_len": 0},
    # a retried status whose Retry-After pause is interrupted (KeyboardInterrupt inside time.sleep): seed C01-H
    {"o": "resp", "status": 503, "keep": True, "ra": 1, "sleep_interrupt": True},
]
OUTCOMES = FAULTS_CONNECT + FAULTS_SEND + FAULTS_RECV + RESPS
RETRIES = [
    {"t": "false"}, {"t": "int", "v": 0}, {"t": "int", "v": 1}, {"t": "int", "v": 3}, {"t": "none"},
    {"t": "retry", "total": 2, "am": "none"}, {"t": "retry", "total": 3, "fl": [503], "ros": False}, {"t": "retry", "total": 3, "fl": [503], "ros": True},
    {"t": "retry", "redirect": 1}, {"t": "retry", "total": 1, "am": "none", "fl": [503]},
]
DISPOSALS = ["read", "readk-release", "release", "drain", "close", "readk-close", "stream", "hold", "data"]
DISPOSALS_PRELOADED_HELD = ["release", "drain", "read", "close"]


def _scale(n):
    return max(1, int(n * float(os.environ.get("VERIF_SCALE", "1"))))


def make_retries(spec):
    from urllib3.util.retry import Retry

    t = spec["t"]
    if t == "none":
        return None
    if t == "false":
        return False
    if t == "int":
        return spec["v"]
    kw = {}
    for k, name in (("total", "total"), ("redirect", "redirect"), ("ros", "raise_on_status")):
        if k in spec:
            kw[name] = spec[k]
    if spec.get("am") == "none":
        kw["allowed_methods"] = None
    if spec.get("fl"):
        kw["status_forcelist"] = list(spec["fl"])
    return Retry(**kw)


def _script_outcome(o):
    if isinstance(o, str):
        return {"o": o}
    o = dict(o)
    if o["o"] == "resp":
        hdrs = [["Location", o.pop("loc")]] if "loc" in o else []
        o.setdefault("body_len", 40)
        if "ra" in o:
            hdrs.append(["Retry-After", str(o.pop("ra"))])
        o["headers"] = hdrs
    return o


def _validate(case):
    if case.get("kind") != "hist" or case.get("pool") not in KINDS or case.get("maxsize") not in (1, 2, 3) or not isinstance(case.get("block"), bool):
        raise core.InvalidCase
    if not isinstance(case.get("preload"), bool) or case.get("release") not in (None, False) or not isinstance(case.get("script"), list) or len(case["script"]) > 8:
        raise core.InvalidCase
    if case.get("addrs", 1) not in (1, 2, 3):
        raise core.InvalidCase
    rs = case.get("retries")
    if not isinstance(rs, dict) or rs.get("t") not in ("none", "false", "int", "retry"):
        raise core.InvalidCase
    if rs["t"] == "int" and rs.get("v") not in (0, 1, 2, 3):
        raise core.InvalidCase
    if rs["t"] == "retry" and (any(k not in ("t", "total", "redirect", "ros", "am", "fl") for k in rs) or rs.get("total", 1) not in (0, 1, 2, 3) or rs.get("redirect", 1) not in (0, 1, 2)
                               or rs.get("am", "none") != "none" or rs.get("fl", [503]) != [503] or not isinstance(rs.get("ros", True), bool)):
        raise core.InvalidCase
    for o in case["script"]:
        if isinstance(o, str):
            if o not in FAULTS_CONNECT + FAULTS_RECV:
                raise core.InvalidCase
        elif not isinstance(o, dict) or (o not in FAULTS_SEND and o not in RESPS):
            raise core.InvalidCase
    reqs = case.get("requests")
    if not isinstance(reqs, list) or not (1 <= len(reqs) <= 5):
        raise core.InvalidCase
    held_pre = case["preload"] and case["release"] is False
    for r in reqs:
        if not isinstance(r, dict) or r.get("m") not in ("GET", "POST", "HEAD") or r.get("d") not in DISPOSALS:
            raise core.InvalidCase
        if case["preload"] and case["release"] is None and r["d"] not in ("data", "read", "release"):
            raise core.InvalidCase
        if held_pre and r["d"] not in DISPOSALS_PRELOADED_HELD + ["hold"]:
            raise core.InvalidCase
        if not case["preload"] and r["d"] == "data":
            raise core.InvalidCase


def run_case(case) -> list[Failure]:
    import urllib3
    from urllib3 import exceptions as ue

    _validate(case)
    N = case["maxsize"]
    kind = case["pool"]
    srv = servers.ScriptServer([_script_outcome(o) for o in case["script"]])
    nulltls.reset()
    ctx = nulltls.NullTLSContext("c01")
    fails: list[Failure] = []
    sig0 = {"pool": kind}
    log = []
    held = []
    owning_closes = 0
    with fakenet.Net(srv) as net:
        # the host (or the proxy) resolves to `addrs` addresses of which only the last one answers: every connection
        # attempt first dials the dead ones, and those sockets have to be closed as well
        net.dead_first = case.get("addrs", 1) - 1
        common = {"maxsize": N, "block": case["block"], "retries": make_retries(case["retries"])}
        if kind == "http":
            obj = urllib3.HTTPConnectionPool("a.test", 80, **common)
            base = ""
        elif kind == "https":
            obj = urllib3.HTTPSConnectionPool("a.test", 443, ssl_context=ctx, **common)
            base = ""
        elif kind == "fwd":
            obj = urllib3.ProxyManager("http://proxy.test:3128", **common)
            base = "http://a.test"
        elif kind == "tunnel-tls":
            # https proxy: TLS to the proxy, CONNECT, then TLS in TLS (urllib3's SSLTransport over real ssl.MemoryBIO)
            obj = urllib3.ProxyManager("https://proxy.test:3128", ssl_context=ctx, proxy_ssl_context=nulltls.NullTLSContext("c01-proxy"), **common)
            base = "https://a.test"
        else:
            obj = urllib3.ProxyManager("http://proxy.test:3128", ssl_context=ctx, **common)
            base = "https://a.test"
        pool = obj if base == "" else obj.connection_from_url(base + "/")

        def dispose(r, d):
            nonlocal owning_closes
            try:
                if d == "read":
                    r.read()
                elif d == "data":
                    r.data
                elif d == "readk-release":
                    r.read(7)
                    r.release_conn()
                elif d == "release":
                    r.release_conn()
                elif d == "drain":
                    r.drain_conn()
                    r.release_conn()
                elif d == "close":
                    if r.connection is not None:
                        owning_closes += 1
                    r.close()
                elif d == "readk-close":
                    r.read(7)
                    if r.connection is not None:
                        owning_closes += 1
                    r.close()
                elif d == "stream":
                    # (read to the end through stream(): like read(), that alone has to give the connection back)
                    for _ in r.stream(16):
                        pass
            except BaseException as e:  # noqa: BLE001
                if type(e).__name__ == "CaseTimeout":
                    raise
                _classify_exc(e, "dispose:" + d)
                try:
                    r.release_conn()
                except Exception:  # noqa: BLE001
                    pass

        def _classify_exc(e, where):
            e.__traceback__ = None  # the harness keeps injected interrupts; their frames must not keep responses alive
            if isinstance(e, servers.Interrupt):
                if not any(e is x for x in srv.injected):
                    fails.append(Failure("interrupt-identity", {**sig0, "where": where.split(":")[0]}, f"a different interrupt object reached the caller at {where}: {brief()}"))
                log.append((where, "interrupt"))
            elif isinstance(e, ue.HTTPError):
                log.append((where, type(e).__name__))
            else:
                log.append((where, "RAW " + type(e).__name__))
                lost_before = owning_closes
                fails.append(Failure("raw-exception", {**sig0, "exc": type(e).__name__, "where": where.split(":")[0], "after_lost_slot": lost_before > 0}, f"{type(e).__name__}: {e} reached the caller at {where}: {brief()}"))

        def brief():
            return f"{ {k: v for k, v in case.items() if k != 'kind'} } log={log}"

        def one_request(m, d):
            kw = {"preload_content": case["preload"], "pool_timeout": 0.01 if case["block"] else None}
            if case["release"] is False:
                kw["release_conn"] = False
            body = b"p=1&q=2" if m == "POST" else None
            try:
                r = obj.urlopen(m, base + "/x%d" % len(log), body=body, **kw)
            except BaseException as e:  # noqa: BLE001
                if type(e).__name__ == "CaseTimeout":
                    raise
                _classify_exc(e, "urlopen:" + m)
                return
            log.append(("urlopen:" + m, r.status))
            if d == "hold":
                held.append(r)
            else:
                dispose(r, d)

        for rq in case["requests"]:
            one_request(rq["m"], rq["d"])
        k = 0
        while held:
            # held responses are finished at the end of the history: alternately read to the end (the connection then
            # goes back by itself, possibly into a pool that is full by now) and released unread
            dispose(held.pop(), ("read", "release")[k % 2] if not case["preload"] else "release")
            k += 1
        _inspect(fails, sig0, pool, net, N, case, owning_closes, "after-history", brief)
        # ---- the pool still works (the script is over: from here on the server answers 200)
        srv.pos = len(srv.script)
        net.clock.interrupt = None  # an interrupt that was armed but met no pause must not hit the final request
        lost = owning_closes
        try:
            r = obj.urlopen("GET", base + "/final", preload_content=True, pool_timeout=0.01 if case["block"] else None, retries=urllib3.Retry(total=8, allowed_methods=None, status_forcelist=[503], raise_on_status=False, redirect=3))
            if r.status not in (200, 204, 302, 503):
                fails.append(Failure("final-request", {**sig0, "what": "status"}, f"final clean request returned {r.status}: {brief()}"))
        except BaseException as e:  # noqa: BLE001
            if type(e).__name__ == "CaseTimeout":
                raise
            known = isinstance(e, ue.EmptyPoolError) and lost > 0 and case["block"]
            fails.append(Failure("final-request", {**sig0, "exc": type(e).__name__, "lost_slot_by_close": bool(known)}, f"final clean request failed with {type(e).__name__}: {e}: {brief()}"))
        _inspect(fails, sig0, pool, net, N, case, owning_closes, "after-final", brief)
        try:
            obj.close() if base == "" else obj.clear()
        except Exception:  # noqa: BLE001
            pass
    return fails


def _inspect(fails, sig0, pool, net, N, case, owning_closes, when, brief):
    gc.collect()
    q = pool.pool
    if q is None:
        fails.append(Failure("slots", {**sig0, "what": "pool-closed", "when": when}, f"the pool's queue is gone: {brief()}"))
        return
    entries = list(q.queue)
    conns = [c for c in entries if c is not None]
    deficit = N - len(entries)
    if deficit != 0:
        fails.append(Failure("slots", {**sig0, "when": when, "sign": "lost" if deficit > 0 else "extra", "lost_slot_by_close": 0 < deficit <= owning_closes},
                             f"{when}: the pool offers {len(entries)} slots, maxsize is {N} ({owning_closes} close() calls were made on responses that still owned their connection): {brief()}"))
    if len({id(c) for c in conns}) != len(conns):
        fails.append(Failure("duplicate", {**sig0, "when": when}, f"{when}: a connection object is in the pool twice: {brief()}"))
    idle_socks = set()
    for c in conns:
        s = getattr(c, "sock", None)
        for _ in range(4):
            if s is None or isinstance(s, fakenet.FakeSocket):
                break
            s = getattr(s, "_fake", None) or getattr(s, "socket", None) or getattr(s, "_sock", None)
        if isinstance(s, fakenet.FakeSocket):
            idle_socks.add(s.sid)
    leaked = [s for s in net.sockets if (s.connected or getattr(s, "dialled_dead", False)) and not s.really_closed and s.sid not in idle_socks]
    if leaked:
        fails.append(Failure("socket-leak", {**sig0, "when": when, "after_lost_slot": owning_closes > 0}, f"{when}: sockets {[s.sid for s in leaked]} are open but not idle in the pool (idle: {sorted(idle_socks)}): {brief()}"))
    if case["block"] and net.max_open_conns > N:
        fails.append(Failure("max-open", {**sig0, "when": when}, f"block=True, maxsize={N} but {net.max_open_conns} connections were open at once: {brief()}"))


def check_case(case):
    res, timed_out = core.guarded(run_case, case)
    if timed_out:
        return [Failure("terminates", {"pool": case.get("pool")}, f"{case}: the history did not finish")]
    return res


def nontrivial(case):
    sc = case["script"]
    bad = [i for i, o in enumerate(sc) if isinstance(o, str) or o.get("o") != "resp" or o.get("status") != 200]
    return bool(bad) and len(case["requests"]) >= 2


def classes(case):
    out = ["pool:" + case["pool"], "maxsize:%d" % case["maxsize"], "block:%s" % case["block"], "preload:%s" % case["preload"], "release:%s" % case["release"], "retries:" + case["retries"]["t"], "nreq:%d" % len(case["requests"]), "addrs:%d" % case.get("addrs", 1)]
    for o in case["script"]:
        out.append("o:" + (o if isinstance(o, str) else (o["o"] + (str(o.get("status", "")) if o["o"] == "resp" else "@" + o.get("at", "")))))
    for r in case["requests"]:
        out.append("d:" + r["d"])
    return out


# --------------------------------------------------------------------------- generation


def disposals_for(preload, release):
    if preload and release is None:
        return ["data", "read", "release"]
    if preload:
        return DISPOSALS_PRELOADED_HELD + ["hold"]
    return [d for d in DISPOSALS if d != "data"]


def enum_cases(tier):
    """The 'one exception class at one step under one release mode' matrix: every single outcome x retries x
    (preload, release) x disposal x pool kind, as the first of two requests."""
    k = 0
    for o in OUTCOMES:
        for rs in RETRIES:
            for preload, release in ((True, None), (True, False), (False, None), (False, False)):
                for d in disposals_for(preload, release):
                    for kind in KINDS:
                        k += 1
                        if tier == "quick" and k % 4:
                            continue
                        for maxsize, block in ((1, True), (2, False)) if tier != "quick" else (core.pick(k, 4, (((1, True),), ((1, True),), ((2, False),)))):
                            yield {"kind": "hist", "pool": kind, "maxsize": maxsize, "block": block, "retries": rs, "preload": preload, "release": release,
                                   "script": [o], "requests": [{"m": core.pick(k, 1, ("GET", "POST")), "d": d}, {"m": "GET", "d": core.pick(k, 2, disposals_for(preload, release))}],
                                   "addrs": core.pick(k, 3, (1, 1, 2, 3))}


def head_cases(tier):
    """HEAD requests against every response kind (incl. chunked / close-delimited framing announced for a body that never
    comes) x every disposal x release mode, on a direct and a tunnelled pool."""
    k = 0
    for o in RESPS:
        for preload, release in ((True, None), (True, False), (False, None), (False, False)):
            for d in disposals_for(preload, release):
                for kind in ("http", "tunnel") if tier == "quick" else KINDS:
                    k += 1
                    yield {"kind": "hist", "pool": kind, "maxsize": core.pick(k, 1, (1, 2)), "block": core.pick(k, 2, (True, True, False)), "retries": core.pick(k, 3, RETRIES), "preload": preload, "release": release,
                           "script": [o], "requests": [{"m": "HEAD", "d": d}, {"m": "GET", "d": "read"}], "addrs": 1}


def _hyp():
    from hypothesis import strategies as st

    @st.composite
    def case(draw):
        preload, release = draw(st.sampled_from([(True, None), (True, False), (False, None), (False, False), (False, False)]))
        ds = disposals_for(preload, release)
        return {
            "kind": "hist", "pool": draw(st.sampled_from(KINDS)), "maxsize": draw(st.integers(1, 3)), "block": draw(st.booleans()),
            "retries": draw(st.sampled_from(RETRIES)), "preload": preload, "release": release,
            "script": draw(st.lists(st.sampled_from(OUTCOMES), min_size=1, max_size=6)),
            "requests": draw(st.lists(st.fixed_dictionaries({"m": st.sampled_from(["GET", "GET", "POST", "HEAD"]), "d": st.sampled_from(ds)}), min_size=1, max_size=4)),
            "addrs": draw(st.sampled_from([1, 1, 2, 3])),
        }

    return case()


def shards(tier, seed):
    total = sum(1 for _ in enum_cases(tier))
    out = [{"part": "matrix", "tier": tier, "lo": a, "hi": b} for a, b in core.split_range(total, 32 if tier == "quick" else 96)]
    out.append({"part": "head", "tier": tier})
    n = _scale(12000 if tier == "quick" else 200000)
    nsh = 16 if tier == "quick" else 64
    for i in range(nsh):
        out.append({"part": "random", "n": n // nsh, "seed": core.derive_seed(seed, "r", i)})
    return out


def run_shard(spec):
    col = core.Collector()
    if spec["part"] == "head":
        for case in head_cases(spec["tier"]):
            col.case(case, True, classes(case) + ["head-matrix"], check_case(case), distinct_by_construction=True)
    elif spec["part"] == "matrix":
        for i, case in enumerate(enum_cases(spec["tier"])):
            if spec["lo"] <= i < spec["hi"]:
                col.case(case, nontrivial(case), classes(case), check_case(case), distinct_by_construction=True)
    else:

        def body(case):
            col.case(case, nontrivial(case), classes(case), check_case(case))

        core.hyp_run(_hyp(), spec["n"], spec["seed"], body)
    return col


def presets():
    mk = lambda pool, N, block, rs, pre, rel, script, reqs: {"kind": "hist", "pool": pool, "maxsize": N, "block": block, "retries": rs, "preload": pre, "release": rel, "script": script, "requests": reqs}  # noqa: E731
    return [
        mk("http", 1, True, {"t": "false"}, False, None, ["rbase"], [{"m": "GET", "d": "read"}, {"m": "GET", "d": "read"}]),
        mk("https", 1, True, {"t": "int", "v": 1}, True, None, ["tlsfail", "rreset"], [{"m": "GET", "d": "data"}, {"m": "POST", "d": "data"}]),
        mk("tunnel", 2, False, {"t": "none"}, False, False, ["connect_refused", {"o": "sbase", "at": "body"}], [{"m": "POST", "d": "hold"}, {"m": "POST", "d": "stream"}]),
        mk("fwd", 1, True, {"t": "retry", "total": 3, "fl": [503], "ros": True}, False, None, [{"o": "resp", "status": 503, "keep": False}] * 4, [{"m": "GET", "d": "drain"}, {"m": "GET", "d": "release"}]),
    ]


def min_nontrivial(tier):
    return 4000
