"""C14 - parse_url is total, canonical, and agrees with RFC 3986 on what the host is."""
from __future__ import annotations

import itertools
import os
import time

from vlib import core, refurl
from vlib.core import Failure

PROP = "C14"
RULE = (
    "cases are input strings: (a) every string up to length L over the alphabet "
    "'a : / ? # @ \\ % [ ] . SP 1' bare and behind 'http://' (L=5 quick, 6 thorough; distinct by construction), "
    "(b) Hypothesis grammar-built URLs with hostile components plus one random splice, (c) Hypothesis unicode text "
    "incl. lone surrogates, (e) 37 hand-written repetition shapes plus a grid of 6656 pumped shapes prefix + unit*n + suffix for the running-time clause. Non-trivial = the string holds "
    ">= 2 different delimiter characters of ':/?#@\\[]', or a '%', or a non-ASCII character. Distinctness by "
    "64-bit hash of the string for (b)/(c)."
)
ASSUMPTIONS = [
    "reference reading (vlib/refurl.py) is a correct RFC 3986 split incl. urllib3's documented scheme-less rule",
    "the 'idna' package is the reference for IDNA A-labels",
    "running-time clause: CPU time (process_time, min of 3) at n=1e3,1e4,1e5; super-linear iff t(1e5)>0.5s and t(1e5)/t(1e4)>25; the 6656 pumped shapes prefix+unit*n+suffix are first screened at n=30/2000/20000 (10 s guard) and measured fully only when suspicious",
    "normal-form clauses are asserted for results whose scheme is http or https (as the property states)",
]
EXHAUSTIVE = {"quick": False, "thorough": False}

ALPHABET = "a:/?#@\\%[]. 1"
DELIMS = set(":/?#@\\[]")


def _scale(n: int) -> int:
    return max(1, int(n * float(os.environ.get("VERIF_SCALE", "1"))))


def nontrivial(s: str) -> bool:
    return len(DELIMS.intersection(s)) >= 2 or "%" in s or not s.isascii()


# --------------------------------------------------------------------------- oracle


def _zone_split(h: str):
    # '[addr%zone]' -> (addr, zone) ; zone None when absent
    inner = h[1:-1]
    i = inner.find("%")
    if i < 0:
        return inner, None
    return inner[:i], inner[i:]


def check_url(s: str) -> tuple[list[Failure], list[str]]:
    from urllib3.exceptions import LocationParseError
    from urllib3.util.url import Url, parse_url

    fails: list[Failure] = []
    classes: list[str] = []
    try:
        u = parse_url(s)
    except LocationParseError:
        return fails, ["rejected"]
    except BaseException as e:  # noqa: BLE001
        fails.append(Failure("totality", {"exc": type(e).__name__}, f"parse_url({s!r}) raised {type(e).__name__}: {e}"))
        return fails, ["crash"]
    if not isinstance(u, Url):
        fails.append(Failure("totality", {"exc": "not-a-Url"}, f"parse_url({s!r}) returned {u!r}"))
        return fails, ["crash"]
    classes.append("parsed")

    # ---- (3) agreement with the independent reading (all schemes)
    r = refurl.split(s)
    ref_userinfo = r.userinfo if r.userinfo else None
    ref_scheme_norm = r.scheme.lower() if r.scheme is not None else None
    normalizable = ref_scheme_norm in ("http", "https", None)
    if r.has_authority:
        classes.append("authority")
        # port
        if r.port is None or r.port == "":
            if u.port is not None:
                fails.append(Failure("agree-port", {"kind": "invented"}, f"{s!r}: reference sees no port, urllib3 port={u.port}"))
        else:
            if not (r.port.isascii() and r.port.isdigit()):
                fails.append(Failure("agree-port", {"kind": "non-digit"}, f"{s!r}: reference port text {r.port!r} is not numeric but parsing succeeded with port={u.port!r} host={u.host!r}"))
            elif u.port != int(r.port):
                fails.append(Failure("agree-port", {"kind": "value"}, f"{s!r}: reference port {int(r.port)} != urllib3 {u.port}"))
        # host
        if u.host is None:
            if r.host != "":
                fails.append(Failure("agree-host", {"kind": "dropped"}, f"{s!r}: reference host {r.host!r}, urllib3 host None"))
        else:
            exp = r.host
            got = u.host
            ok = False
            if not normalizable:
                # urllib3 documents normalisation for http/https (and scheme-less) URLs only
                ok = exp == got
            elif exp.startswith("[") and exp.endswith("]") and got.startswith("[") and got.endswith("]"):
                classes.append("ipv6")
                ea, ez = _zone_split(exp)
                ga, gz = _zone_split(got)
                ok = ea.lower() == ga.lower()
                if ok:
                    if ez is None or gz is None:
                        ok = ez is None and gz is None
                    else:
                        classes.append("zone")
                        ezz = ez[3:] if (ez.startswith("%25") and ez != "%25") else ez[1:]
                        ok = gz.startswith("%") and refurl.pct_decode_bytes(gz[1:]) == refurl.literal_or_decoded(ezz)
            elif exp.isascii():
                ok = exp.lower() == got.lower()
            else:
                classes.append("idn")
                if got == exp or got.lower() == exp.lower():
                    ok = True  # non-normalised scheme keeps the text
                else:
                    try:
                        import idna

                        want = ".".join(
                            (idna.encode(lbl.lower(), strict=True, std3_rules=True).decode("ascii") if not lbl.isascii() else lbl.lower())
                            for lbl in exp.split(".")
                        )
                        ok = want == got
                    except Exception:  # noqa: BLE001
                        ok = False
            if not ok:
                fails.append(Failure("agree-host", {"kind": "differs"}, f"{s!r}: reference host {exp!r} vs urllib3 host {got!r}"))
        # userinfo
        if u.auth is None:
            if ref_userinfo is not None:
                fails.append(Failure("agree-userinfo", {"kind": "dropped"}, f"{s!r}: reference userinfo {ref_userinfo!r}, urllib3 None"))
        else:
            classes.append("userinfo")
            if ref_userinfo is None:
                fails.append(Failure("agree-userinfo", {"kind": "invented"}, f"{s!r}: urllib3 auth {u.auth!r}, reference none"))
            elif normalizable:
                if refurl.pct_decode_bytes(u.auth) != refurl.literal_or_decoded(ref_userinfo):
                    fails.append(Failure("agree-userinfo", {"kind": "differs"}, f"{s!r}: auth {u.auth!r} vs reference {ref_userinfo!r}"))
            elif u.auth != ref_userinfo:
                fails.append(Failure("agree-userinfo", {"kind": "differs"}, f"{s!r}: auth {u.auth!r} vs reference {ref_userinfo!r}"))
    else:
        if u.host is not None or u.port is not None or u.auth is not None:
            fails.append(Failure("agree-host", {"kind": "invented"}, f"{s!r}: no authority in the reference reading, urllib3 gives auth={u.auth!r} host={u.host!r} port={u.port!r}"))

    # ---- (2) normal form, http/https only
    if u.scheme in ("http", "https"):
        classes.append("http(s)")
        if r.scheme is None or r.scheme.lower() != u.scheme:
            fails.append(Failure("normal-scheme", {}, f"{s!r}: scheme {u.scheme!r} vs reference {r.scheme!r}"))
        if u.host is not None:
            hostpart = u.host
            if hostpart.startswith("[") and "%" in hostpart:
                hostpart = hostpart[: hostpart.index("%")]
            if hostpart != hostpart.lower():
                fails.append(Failure("normal-host-case", {}, f"{s!r}: host {u.host!r} not lower-case"))
        if u.port is not None and not (0 <= u.port <= 65535):
            fails.append(Failure("normal-port", {}, f"{s!r}: port {u.port}"))
        if u.path:
            segs = u.path.split("/")
            if "." in segs or ".." in segs:
                fails.append(Failure("normal-dots", {}, f"{s!r}: path {u.path!r} keeps a dot segment"))
        for name, val, ok_set in (
            ("auth", u.auth, refurl.USERINFO_OK),
            ("path", u.path, refurl.PATH_OK),
            ("query", u.query, refurl.QUERY_OK),
            ("fragment", u.fragment, refurl.FRAGMENT_OK),
        ):
            if val is not None and not refurl.only_chars_and_upper_escapes(val, ok_set):
                fails.append(Failure("normal-chars", {"component": name}, f"{s!r}: {name} {val!r} has characters outside its RFC 3986 class / lower-case or broken escapes"))
        # no double encoding: the byte meaning of each component is preserved
        for name, raw, val in (("query", r.query, u.query), ("fragment", r.fragment, u.fragment)):
            if raw is not None and val is not None:
                if refurl.pct_decode_bytes(val) != refurl.literal_or_decoded(raw):
                    fails.append(Failure("normal-meaning", {"component": name}, f"{s!r}: {name} {val!r} does not mean the same bytes as {raw!r}"))
        raw_path = r.path
        if raw_path and u.path is not None:
            segs = raw_path.split("/")
            if "." not in segs and ".." not in segs:
                want = refurl.literal_or_decoded(raw_path)
                if not raw_path.startswith("/"):
                    want = b"/" + want
                if refurl.pct_decode_bytes(u.path) != want:
                    fails.append(Failure("normal-meaning", {"component": "path"}, f"{s!r}: path {u.path!r} does not mean the same bytes as {raw_path!r}"))
            elif raw_path.startswith("/"):
                # dot segments are removed exactly as RFC 3986 section 5.2.4 prescribes (nothing else is lost)
                want = refurl.literal_or_decoded(refurl.remove_dot_segments(raw_path))
                if refurl.pct_decode_bytes(u.path) != want:
                    fails.append(Failure("normal-dots", {"kind": "not-rfc-removal"}, f"{s!r}: path {u.path!r}, RFC 3986 dot-segment removal of {raw_path!r} gives {refurl.remove_dot_segments(raw_path)!r}"))
        # idempotence
        try:
            u2 = parse_url(u.url)
            if u2 != u:
                fails.append(Failure("idempotent", {"kind": "differs"}, f"{s!r}: {u!r} -> {u.url!r} -> {u2!r}"))
        except LocationParseError:
            fails.append(Failure("idempotent", {"kind": "rejects-own-output"}, f"{s!r}: {u!r} -> {u.url!r} is rejected"))
    return fails, classes


def check_case(case) -> list[Failure]:
    kind = case.get("kind")
    if kind == "url":
        s = case["s"]
        if not isinstance(s, str):
            raise core.InvalidCase
        try:
            s = s.encode("utf-16", "surrogatepass").decode("utf-16", "surrogatepass")
        except Exception:
            raise core.InvalidCase
        return check_url(s)[0]
    if kind == "urlhex":  # strings with lone surrogates are stored as utf-16 hex
        s = bytes.fromhex(case["h"]).decode("utf-16-le", "surrogatepass")
        return check_url(s)[0]
    if kind == "timing":
        return check_timing(case["shape"], case.get("sizes", [1000, 10000, 100000]))[0]
    raise core.InvalidCase


def _mkcase(s: str) -> dict:
    try:
        s.encode("utf-8")
        return {"kind": "url", "s": s}
    except UnicodeEncodeError:
        return {"kind": "urlhex", "h": s.encode("utf-16-le", "surrogatepass").hex()}


# --------------------------------------------------------------------------- timing

SHAPES = {
    "slashes": lambda n: "http://a/" + "/" * n,
    "dotdot": lambda n: "http://a/" + "../" * n,
    "dot": lambda n: "http://a/" + "./" * n,
    "a-dotdot": lambda n: "http://a/" + "a/../" * n,
    "percent": lambda n: "http://a/" + "%" * n,
    "pct41": lambda n: "http://a/" + "%41" * n,
    "pct-then-bad": lambda n: "http://a/" + "%41" * n + "%",
    "ats": lambda n: "http://" + "@" * n + "a/",
    "user-ats": lambda n: "http://" + "u@" * n + "a/",
    "colons": lambda n: "http://a" + ":" * n,
    "zeros-port": lambda n: "http://a:" + "0" * n + "80/",
    "nines-port": lambda n: "http://a:" + "9" * n,
    "idn-labels": lambda n: "http://" + "\u00e9." * n + "a/",
    "ascii-labels": lambda n: "http://" + "a." * n + "a/",
    "long-label": lambda n: "http://" + "a" * n + "/",
    "bracket-run": lambda n: "http://" + "[1:" * n,
    "v6-colons": lambda n: "http://[" + "1:" * n + "]/",
    "zone": lambda n: "http://[fe80::1%25" + "%41" * n + "]/",
    "backslashes": lambda n: "http://a" + "\\" * n,
    "schemeish": lambda n: "a" * n + ":",
    "schemeish-noc": lambda n: "a" * n,
    "plusminus": lambda n: "a" + "+-" * n + "/",
    "query-q": lambda n: "http://a/?" + "?" * n,
    "frag-hash": lambda n: "http://a/#" + "#" * n,
    "spaces": lambda n: "http://a/" + " " * n,
    "nonascii-path": lambda n: "http://a/" + "\u20ac" * n,
    # long host runs followed by something that invalidates host[:port] (backtracking bait)
    "host-badport": lambda n: "http://" + "a" * n + ":x",
    "host-longport": lambda n: "http://" + "a" * n + ":123456",
    "host-bracket": lambda n: "http://" + "a" * n + "]",
    "host-openbracket": lambda n: "http://" + "a" * n + "[",
    "host-2colons": lambda n: "http://" + "a" * n + ":1:2",
    "host-badpct": lambda n: "http://" + "a" * n + "%zz",
    "host-pct-run-bad": lambda n: "http://" + "%41" * n + "%",
    "host-dots-bad": lambda n: "http://" + "a." * n + ":x",
    "userinfo-run-badport": lambda n: "http://" + "u" * n + "@h:x",
    "v4ish-run": lambda n: "http://" + "1." * n + "x:y",
    "noscheme-host-bad": lambda n: "a" * n + "]",
}
TIME_GUARD_S = 10.0

# pumped shapes prefix + unit * n + suffix over the pieces of URL syntax (the classic way a backtracking pattern or a
# quadratic loop is provoked: a long run that ALMOST matches, followed by something that makes the match fail)
GRID_PREFIX = ["", "a:", "//", "http://", "http://a/", "http://a?", "http://a#", "http://u@", "http://u:", "http://a:", "http://[", "http://[::1", "http://[fe80::1%25", "http://[fe80::1%", "http://1.", "http://xn--"]
GRID_UNIT = ["a", "1", "f", "-", "~", ".", "a.", "1.", ":", "1:", "f:", "/", "@", "%", "%41", "%2", "a%", "[", "]", "\u00e9", "..", "./", "_", "+", "!", "a!"]
GRID_SUFFIX = ["", "/", "]", "]/", "]x", "]:80", ":x", ":80", "!", "%", "%zz", "@h/", "#", "?", "[", " "]


def grid_shape(p: int, u: int, x: int):
    return lambda n: GRID_PREFIX[p] + GRID_UNIT[u] * n + GRID_SUFFIX[x]


def screen_timing(fn, label):
    """Cheap screen for one pumped shape: parse at n=30 (an exponential matcher is already hopeless there), 2000 and
    20000; only a shape that is suspicious (slow, or growing faster than 30x for 10x the length) gets the full
    three-point measurement of check_timing.  -> (failures, suspicious?)"""
    import signal

    from urllib3.exceptions import LocationParseError
    from urllib3.util.url import parse_url

    def _alarm(signum, frame):
        raise _TimeGuard()

    try:
        old = signal.signal(signal.SIGALRM, _alarm)
    except ValueError:
        return [], False
    ts = []
    try:
        for n in (30, 2000, 20000):
            t = time.process_time()
            try:
                signal.setitimer(signal.ITIMER_REAL, TIME_GUARD_S)
                try:
                    parse_url(fn(n))
                finally:
                    signal.setitimer(signal.ITIMER_REAL, 0)
            except LocationParseError:
                pass
            except _TimeGuard:
                return [Failure("linear-time", {"shape": "grid"}, f"shape {label}: parse_url did not return within {TIME_GUARD_S}s at n={n}")], True
            except BaseException as e:  # noqa: BLE001
                return [Failure("totality", {"exc": type(e).__name__}, f"shape {label} n={n}: {type(e).__name__}: {e}")], True
            ts.append(time.process_time() - t)
    finally:
        signal.signal(signal.SIGALRM, old)
    return [], (ts[2] > 0.25 or (ts[2] > 0.05 and ts[2] / max(ts[1], 1e-5) > 30))


class _TimeGuard(Exception):
    pass


def check_timing(shape, sizes=(1000, 10000, 100000)):
    import signal

    from urllib3.exceptions import LocationParseError
    from urllib3.util.url import parse_url

    if isinstance(shape, (list, tuple)):
        if len(shape) != 3 or not (0 <= shape[0] < len(GRID_PREFIX) and 0 <= shape[1] < len(GRID_UNIT) and 0 <= shape[2] < len(GRID_SUFFIX)):
            raise core.InvalidCase
        fn = grid_shape(*shape)
        shape = "grid:%r+%r*n+%r" % (GRID_PREFIX[shape[0]], GRID_UNIT[shape[1]], GRID_SUFFIX[shape[2]])
    else:
        if shape not in SHAPES:
            raise core.InvalidCase
        fn = SHAPES[shape]
    times = []
    fails = []

    def _alarm(signum, frame):
        raise _TimeGuard()

    can_alarm = hasattr(signal, "setitimer")
    try:
        old_handler = signal.signal(signal.SIGALRM, _alarm) if can_alarm else None
    except ValueError:  # not the main thread
        can_alarm = False
        old_handler = None
    try:
        for n in sizes:
            s = fn(n)
            best = None
            for _ in range(3):
                t = time.process_time()
                try:
                    if can_alarm:
                        signal.setitimer(signal.ITIMER_REAL, TIME_GUARD_S)
                    try:
                        parse_url(s)
                    finally:
                        if can_alarm:
                            signal.setitimer(signal.ITIMER_REAL, 0)
                except LocationParseError:
                    pass
                except _TimeGuard:
                    fails.append(Failure("linear-time", {"shape": shape}, f"shape {shape}: parse_url did not return within {TIME_GUARD_S}s at n={n} (times so far {[round(x, 4) for x in times]})"))
                    return fails, times + [TIME_GUARD_S]
                except BaseException as e:  # noqa: BLE001
                    fails.append(Failure("totality", {"exc": type(e).__name__}, f"shape {shape} n={n}: {type(e).__name__}: {e}"))
                    break
                dt = time.process_time() - t
                best = dt if best is None else min(best, dt)
                if dt > 5:
                    break
            times.append(best or 0.0)
    finally:
        if can_alarm and old_handler is not None:
            signal.signal(signal.SIGALRM, old_handler)
    if len(times) == 3 and times[2] > 0.5 and times[2] / max(times[1], 1e-6) > 25:
        fails.append(
            Failure("linear-time", {"shape": shape}, f"shape {shape}: cpu seconds at n={list(sizes)}: {[round(t, 4) for t in times]} (super-linear)")
        )
    return fails, times


# --------------------------------------------------------------------------- generators


def _grammar():
    from hypothesis import strategies as st

    scheme = st.sampled_from(["http://", "https://", "HTTP://", "hTtPs://", "http:", "https:/", "ftp://", "a+b://", "ws://", "//", "", "http:///", "http://"])
    def toks(alpha, max_size):
        return st.lists(st.sampled_from(alpha), max_size=max_size).map("".join)

    ui_alpha = toks(list("ab:@%!$ \u00e9") + ["%41", "%zz", "%2f", "%40"], 6)
    userinfo = st.one_of(st.none(), st.just(""), ui_alpha, st.sampled_from(["user:pw", "u@v", "a:b@c:d", "%40", "u%"]))
    host = st.one_of(
        st.sampled_from(
            [
                "example.com", "EXAMPLE.com", "a.b.", "xn--bcher-kva.example", "b\u00fccher.example", "stra\u00dfe.de",
                "\u0130.com", "\u212a.com", "\u4f8b\u3048.jp", "a_b.com", "-a.com", "a..b", "", "1.2.3.4", "1.2.3.4.5",
                "256.1.1.1", "0x7f.1", "[::1]", "[::1%25eth0]", "[fe80::1%eth0]", "[FE80::A%25En%31]", "[::1", "::1]",
                "[v1.a]", "[::ffff:1.2.3.4]", "[1:2:3:4:5:6:7:8]", "[1:2:3:4:5:6:7:8:9]", "[::1%25]", "[::1%]",
                "[::1%25%zz]", "a%41.com", "a%zz.com", "%", "\ud800.com", "a\u3002b", "\uff41.com", "a b.com",
                "localhost", "[::1]x", "x[::1]",
            ]
        ),
        st.text(alphabet="aB1.-_%[]:\u00e9", max_size=8),
    )
    port = st.one_of(
        st.none(),
        st.sampled_from(["", "80", "0080", "65535", "65536", "99999999999", "0", "00", "-1", "8a", " 80", "80 ", "\u0661", "443", "+80", "1e2", "8\uff10", "4\u0664\u0663", "1\u00b2", "9\u0969"]),
    )
    seg = st.sampled_from([".", "..", "a", "%2e", "%2E", "%zz", "%", "a b", "\u00e9", "\\", "a;b=c", "", "@", ":", "%41", "%c3%a9", "\x00", "\n", "...", ".a", "%2e%2e", "~", "+"])
    path = st.one_of(st.just(""), st.lists(seg, min_size=1, max_size=6).map(lambda l: "/" + "/".join(l)), st.lists(seg, min_size=1, max_size=3).map("/".join))
    qf_alpha = toks(list("a=b&?/ \u00e9\\@:[]") + ["%20", "%zz", "%", "%2f", "%C3%A9"], 8)
    query = st.one_of(st.none(), qf_alpha)
    frag = st.one_of(st.none(), qf_alpha)
    splice = st.one_of(st.none(), st.tuples(st.integers(0, 60), st.sampled_from(list("@\\#?/:%[] \t\r\n") + ["//", "@@", "%25", "\u00e9"])))

    def build(t):
        sch, ui, h, p, pa, q, f, sp = t
        s = sch
        if ui is not None:
            s += ui + "@"
        s += h
        if p is not None:
            s += ":" + p
        s += pa
        if q is not None:
            s += "?" + q
        if f is not None:
            s += "#" + f
        if sp is not None:
            i = min(sp[0], len(s))
            s = s[:i] + sp[1] + s[i:]
        return s

    return st.tuples(scheme, userinfo, host, port, path, query, frag, splice).map(build)


def _texts():
    from hypothesis import strategies as st

    return st.one_of(
        st.text(max_size=24),
        st.text(alphabet=st.characters(), max_size=12),
        st.text(alphabet=ALPHABET + "é@:", min_size=7, max_size=30),
        st.builds(lambda a, b: "http://" + a + b, st.text(alphabet="ab.:@[]%\\é", max_size=10), st.text(max_size=10)),
    )


def shards(tier: str, seed: int) -> list[dict]:
    out: list[dict] = []
    L = 5 if tier == "quick" else 6
    for prefix in ("", "http://"):
        out.append({"part": "exhaustive", "prefix": prefix, "len_max": min(L, 4), "fixed": ""})
        for length in range(5, L + 1):
            k = length - 4
            for head in itertools.product(ALPHABET, repeat=k):
                out.append({"part": "exhaustive", "prefix": prefix, "len": length, "fixed": "".join(head)})
    n_b = _scale(30000 if tier == "quick" else 1000000)
    n_c = _scale(12000 if tier == "quick" else 300000)
    nsh = 16 if tier == "quick" else 64
    for i in range(nsh):
        out.append({"part": "grammar", "n": n_b // nsh, "seed": core.derive_seed(seed, "g", i)})
        out.append({"part": "text", "n": n_c // nsh, "seed": core.derive_seed(seed, "t", i)})
    for shape in SHAPES:
        out.append({"part": "timing", "shape": shape})
    for p in range(len(GRID_PREFIX)):
        out.append({"part": "timing-grid", "prefix": p})
    # coverage-guided campaigns (atheris / libFuzzer) over the same two strategies
    from vlib import fuzz

    out += fuzz.shards("C14", tier, seed, ("grammar", "text"), quick=(2, 4000), thorough=(16, 150000))
    return out


def fuzz_strategy(which):
    return (_grammar() if which != "text" else _texts()), _mkcase


def run_shard(spec: dict):
    col = core.Collector()
    part = spec["part"]
    if part == "exhaustive":
        prefix = spec["prefix"]
        if "len" in spec:
            head = spec["fixed"]
            it = (head + "".join(t) for t in itertools.product(ALPHABET, repeat=spec["len"] - len(head)))
        else:
            it = ("".join(t) for n in range(0, spec["len_max"] + 1) for t in itertools.product(ALPHABET, repeat=n))
        for body in it:
            s = prefix + body
            fails, classes = check_url(s)
            col.evaluations += 1
            nt = nontrivial(s)
            if nt:
                col.nontrivial_counted += 1
            for c in classes:
                col.classes["exh:" + c] += 1
            if fails or (nt and not col.samples.get("exhaustive")):
                col.evaluations -= 1
                col.nontrivial_counted -= 1 if nt else 0
                col.case(_mkcase(s), nt, ["exhaustive"] if not col.samples.get("exhaustive") else [], fails, distinct_by_construction=True)
    elif part in ("grammar", "text"):
        strat = _grammar() if part == "grammar" else _texts()

        def body(s):
            fails, classes = check_url(s)
            col.case(_mkcase(s), nontrivial(s), [part + ":" + c for c in classes], fails)

        core.hyp_run(strat, spec["n"], spec["seed"], body)
    elif part == "atheris":
        import sys

        from vlib import fuzz

        fuzz.run_shard(col, sys.modules[__name__], spec)
    elif part == "timing-grid":
        p = spec["prefix"]
        for u in range(len(GRID_UNIT)):
            for x in range(len(GRID_SUFFIX)):
                label = "%r+%r*n+%r" % (GRID_PREFIX[p], GRID_UNIT[u], GRID_SUFFIX[x])
                fails, suspicious = screen_timing(grid_shape(p, u, x), label)
                if suspicious and not fails:
                    fails, _times = check_timing([p, u, x])
                col.case({"kind": "timing", "shape": [p, u, x]}, True, ["timing-grid"] + (["timing-grid:measured-fully"] if suspicious else []), fails, distinct_by_construction=True)
    elif part == "timing":
        fails, times = check_timing(spec["shape"])
        col.case({"kind": "timing", "shape": spec["shape"]}, True, ["timing"], fails, distinct_by_construction=True)
        col.extra["timing_" + spec["shape"]] = [round(t, 4) for t in times]
    return col


def presets():
    urls = [
        "http://:", "http://@", "http://", "http://a@b@c/", "http://a\\@b/", "http://[::1%25eth0]:80/",
        "http://google.com:80", "google.com:80", "/foo?bar", "http://user:pw@EXAMPLE.com:0080/a/../b?x#y",
        "http://a/%2e%2E/%zz", "HTTP://\u00e9.com", "http://[fe80::1%eth0]/", "http://example.com:8\uff10/", "http://[::1]:4\u0664\u0663",
    ]
    return [_mkcase(u) for u in urls]


def min_nontrivial(tier: str) -> int:
    return 100000


def shrinkable(case):
    return case.get("kind") != "timing"
