"""C03 - a response only ever contains bytes sent in reply to its own request."""
from __future__ import annotations

import itertools
import os

from vlib import core, fakenet, servers
from vlib.core import Failure

PROP = "C03"
RULE = (
    "a case is a HISTORY of 2-4 requests (GET / HEAD / POST / the lower-case token head, unique targets) on one pool (maxsize 1-2, retries False / 1 / 3): "
    "per attempt the server behaviour = status 200 / 201 / 205 / 404 / 500 (with body) / 204 / 304 x framing Content-Length / chunked / close-delimited x "
    "keep-alive / close x network segmentation x part of the response arriving only after the next request was written x {nothing, stray bytes or a complete second response after the body, a body "
    "after a body-less HEAD/204/304 response, an interim 100 Continue, early EOF inside the body}; per response the caller "
    "behaviour = read all / read k then release / release unread / drain / close / read k then close / stream / stream or iterate and stop after the first piece (generator closed) then release / ignore / "
    "read k then ignore / release (or read k and release) while keeping the response object referenced / hold (read to the end only just before the last request, so that several connections are in flight). Every body the server sends is TAGGED with the target and serial number of the request it answers, "
    "stray bytes carry a poison tag, so each delivered byte has a decidable owner. Non-trivial = an earlier response was left "
    "unread / partially read / had stray bytes or a surplus body AND a later request used the pool."
)
ASSUMPTIONS = [
    "vlib/servers.py ScriptServer on vlib/fakenet.py; the real io.BufferedReader / http.client read-ahead is used (not modelled)",
    "targets are unique per request, so a tag identifies the request a byte was sent for",
    "a 'dirty' connection is one with bytes or EOF pending in the socket when the next request's first byte arrives at the server",
]
EXHAUSTIVE = {"quick": False, "thorough": False}

BEHAVIOURS = ["read", "readk-release", "release", "drain", "close", "readk-close", "stream", "ignore", "readk-ignore", "hold", "release-keep", "readk-release-keep", "stream-break", "iter-break"]
EXTRAS = [None, "stray", "second", "force_body", "pre100", "short"]


def _scale(n):
    return max(1, int(n * float(os.environ.get("VERIF_SCALE", "1"))))


BODY_STATUSES = (200, 201, 205, 404, 500)  # 205 "should" have no body, but a server that sends one frames it like any other


def server_outcome(sv):
    """JSON server behaviour -> ScriptServer outcome."""
    if sv.get("extra") == "short":
        return {"o": "short_eof", "seg": sv.get("seg")}
    if sv.get("framing") == "close" and sv.get("extra") in ("stray", "second") and sv.get("status", 200) in BODY_STATUSES:
        # with close-delimited framing everything up to EOF IS the body: "bytes after the body" do not exist
        sv = dict(sv, extra=None)
    o = servers.ok(sv.get("status", 200), body_len=sv.get("n", 40), framing=sv.get("framing", "cl"), keep=sv.get("keep", True))
    if sv.get("seg"):
        o["seg"] = sv["seg"]
    if sv.get("cs"):
        o["chunk_sizes"] = sv["cs"]
    if sv.get("late") is not None and sv.get("extra") in (None, "pre100") and sv.get("status", 200) in BODY_STATUSES:
        # (unsolicited bytes that arrive only after the next request was written are indistinguishable from its
        #  response for any HTTP/1.1 client; the statement speaks of bytes pending AT CHECKOUT, so only the
        #  legitimate remainder of a body is ever delivered late)
        o["late"] = sv["late"]
        if sv.get("trap"):
            # the late remainder of THIS body looks like an HTTP message (it is still this request's own data)
            o["body"] = ("T" * sv["late"]) + "HTTP/1.1 200 OK\r\nContent-Length: 6\r\n\r\nPOISON"
            o["late_marker"] = "HTTP/1.1 200 OK"
            o.pop("chunk_sizes", None)  # one chunk, so that the marker is not interrupted by framing
    ex = sv.get("extra")
    if ex == "stray":
        o["then"] = "stray"
        o["stray"] = "POISON-STRAY-BYTES"
    elif ex == "second":
        o["then"] = "stray"
    elif ex == "force_body":
        o["force_body"] = True
    elif ex == "pre100":
        o["pre100"] = True
    return o


def _validate(case):
    if case.get("kind") != "own" or case.get("maxsize") not in (1, 2) or case.get("retries") not in (False, 1, 3):
        raise core.InvalidCase
    reqs, svs = case.get("requests"), case.get("server")
    if not isinstance(reqs, list) or not (1 <= len(reqs) <= 5) or not isinstance(svs, list) or len(svs) > 8:
        raise core.InvalidCase
    for r in reqs:
        if not isinstance(r, dict) or r.get("m") not in ("GET", "HEAD", "POST", "head") or r.get("b") not in BEHAVIOURS:
            raise core.InvalidCase
    for sv in svs:
        if not isinstance(sv, dict) or sv.get("status", 200) not in BODY_STATUSES + (204, 304) or sv.get("framing", "cl") not in ("cl", "chunked", "close") or sv.get("extra") not in EXTRAS:
            raise core.InvalidCase
        if not isinstance(sv.get("keep", True), bool) or not (isinstance(sv.get("n", 40), int) and 0 <= sv.get("n", 40) <= 5000):
            raise core.InvalidCase
        if sv.get("seg") is not None and not (isinstance(sv["seg"], int) and 1 <= sv["seg"] <= 5000):
            raise core.InvalidCase
        if sv.get("late") is not None and not (isinstance(sv["late"], int) and 0 <= sv["late"] <= 5000):
            raise core.InvalidCase
        if not isinstance(sv.get("trap", False), bool):
            raise core.InvalidCase
        if "cs" in sv and not (isinstance(sv["cs"], list) and all(isinstance(x, int) and 1 <= x <= 200 for x in sv["cs"]) and len(sv["cs"]) <= 4):
            raise core.InvalidCase


def run_case(case) -> list[Failure]:
    import urllib3
    from urllib3 import exceptions as ue

    _validate(case)
    srv = servers.ScriptServer([server_outcome(sv) for sv in case["server"]])
    fails: list[Failure] = []
    delivered: list = []  # per request: {"target", "bytes", "status", "err"}
    keepalive = []  # responses the caller ignores stay referenced (as a forgetful caller's would)
    with fakenet.Net(srv) as net:
        pool = urllib3.HTTPConnectionPool("a.test", 80, maxsize=case["maxsize"], retries=case["retries"])
        held = []  # (response, record): read to the end (which releases the connection) right before the last request
        for i, rq in enumerate(case["requests"]):
            target = "/x%d" % i
            rec = {"target": target, "bytes": b"", "status": None, "err": None, "method": rq["m"], "b": rq["b"]}
            delivered.append(rec)
            if i == len(case["requests"]) - 1:
                while held:
                    hr, hrec = held.pop(0)
                    try:
                        hrec["bytes"] += hr.read()
                    except BaseException as e:  # noqa: BLE001
                        if type(e).__name__ == "CaseTimeout":
                            raise
                        hrec["err"] = e
                        e.__traceback__ = None
                    try:
                        hr.release_conn()
                    except Exception:  # noqa: BLE001
                        pass
                    del hr
            try:
                r = pool.urlopen(rq["m"], target, body=(b"a=1" if rq["m"] == "POST" else None), preload_content=False)
            except BaseException as e:  # noqa: BLE001
                if type(e).__name__ == "CaseTimeout":
                    raise
                rec["err"] = e
                e.__traceback__ = None
                continue
            rec["status"] = r.status
            b = rq["b"]
            try:
                if b == "read":
                    rec["bytes"] += r.read()
                elif b in ("readk-release", "readk-close", "readk-ignore"):
                    rec["bytes"] += r.read(9)
                    if b == "readk-release":
                        r.release_conn()
                    elif b == "readk-close":
                        r.close()
                    else:
                        keepalive.append(r)
                elif b == "release":
                    r.release_conn()
                elif b in ("release-keep", "readk-release-keep"):
                    # released, but the caller keeps the response object around (e.g. for its headers)
                    if b.startswith("readk"):
                        rec["bytes"] += r.read(9)
                    r.release_conn()
                    keepalive.append(r)
                elif b == "drain":
                    r.drain_conn()
                    r.release_conn()
                elif b == "close":
                    r.close()
                elif b == "stream":
                    for piece in r.stream(11):
                        rec["bytes"] += piece
                    r.release_conn()
                elif b in ("stream-break", "iter-break"):
                    # the caller stops iterating part-way (`for piece in r.stream(7): break`): the generator is closed
                    # (GeneratorExit inside the read), then the response is released
                    gen = r.stream(7) if b == "stream-break" else iter(r)
                    for piece in gen:
                        rec["bytes"] += piece
                        break
                    if hasattr(gen, "close"):
                        gen.close()
                    del gen
                    r.release_conn()
                elif b == "ignore":
                    keepalive.append(r)
                elif b == "hold":
                    if i == len(case["requests"]) - 1:
                        rec["bytes"] += r.read()
                    else:
                        held.append((r, rec))
            except BaseException as e:  # noqa: BLE001
                if type(e).__name__ == "CaseTimeout":
                    raise
                rec["err"] = e
                e.__traceback__ = None
                try:
                    r.release_conn()
                except Exception:  # noqa: BLE001
                    pass
            del r
        keepalive.clear()
        try:
            pool.close()
        except Exception:  # noqa: BLE001
            pass
    atts = [a for a in srv.attempts if a.get("msg") is not None]

    def brief():
        return (f"{ {k: v for k, v in case.items() if k != 'kind'} } -> attempts {[(a['sid'], a['msg'].request_line.split(b' ')[1].decode(), a['outcome'].get('status', a['outcome']['o']), 'dirty' if a.get('dirty') else '') for a in atts]} "
                f"delivered {[(d['target'], d['status'], d['bytes'][:24], type(d['err']).__name__ if d['err'] else None) for d in delivered]}")

    for i, d in enumerate(delivered):
        sig = {"behaviour": d["b"], "method": d["method"]}
        mine = [a for a in atts if a["msg"].request_line.split(b" ")[1].decode("latin-1") == d["target"]]
        if d["err"] is not None and not isinstance(d["err"], ue.HTTPError):
            fails.append(Failure("error-type", {**sig, "exc": type(d["err"]).__name__}, f"request {i}: {type(d['err']).__name__}: {d['err']} is not a urllib3 error: {brief()}"))
        got = d["bytes"]
        if not got:
            continue
        owners = [a for a in mine if a.get("body") is not None and a["body"].startswith(got)]
        if not owners:
            # whose bytes are they?
            whose = "poison" if b"POISON" in got else next((a["msg"].request_line.split(b" ")[1].decode("latin-1") for a in atts if a.get("body") and (got[:8] in a["body"] or a["body"][:8] in got)), "unknown")
            prev = case["requests"][i - 1]["b"] if i else None
            fails.append(Failure("foreign-bytes", {**sig, "whose": "poison" if whose == "poison" else ("other-request" if whose not in ("unknown", d["target"]) else whose), "prev_behaviour": prev},
                                 f"request {i} ({d['target']}) was given {got[:60]!r}, which is not a prefix of any body the server sent for it (those bytes belong to {whose}): {brief()}"))
            continue
        a = owners[-1]
        if a.get("dirty") and a.get("nth_on_socket", 0) > 0:
            fails.append(Failure("dirty-connection-yielded", {**sig}, f"request {i} got its response on socket #{a['sid']} although bytes/EOF were pending there when the request arrived: {brief()}"))
        if d["b"] in ("read", "stream", "hold") and d["err"] is None and got != a["body"] and a["outcome"].get("o") == "resp":
            fails.append(Failure("complete", {**sig, "framing": a["outcome"].get("framing")}, f"request {i} read to the end without error but got {len(got)} of {len(a['body'])} bytes: {brief()}"))
    return fails


def check_case(case):
    res, timed_out = core.guarded(run_case, case)
    if timed_out:
        return [Failure("terminates", {}, f"{case}: the history did not finish")]
    return res


def nontrivial(case):
    reqs, svs = case["requests"], case["server"]
    if len(reqs) < 2:
        return False
    for i, r in enumerate(reqs[:-1]):
        sv = svs[i] if i < len(svs) else {}
        if r["b"] not in ("read", "stream", "drain") or sv.get("extra") in ("stray", "second", "force_body", "short"):
            return True
    return False


def classes(case):
    out = ["maxsize:%d" % case["maxsize"], "retries:%s" % case["retries"], "nreq:%d" % len(case["requests"])]
    for r in case["requests"]:
        out.append("b:" + r["b"])
        out.append("m:" + r["m"])
    for sv in case["server"]:
        out.append("framing:" + sv.get("framing", "cl"))
        out.append("extra:" + str(sv.get("extra")))
        out.append("status:%d" % sv.get("status", 200))
        if not sv.get("keep", True):
            out.append("conn-close")
        if sv.get("seg"):
            out.append("segmented")
    return out


# --------------------------------------------------------------------------- generation


def enum_cases(tier):
    yield from overlap_cases(tier)
    yield from product_cases(tier)


def product_cases(tier):
    """Exhaustive 2-request product: server behaviour x caller behaviour for the first exchange, then a plain second request."""
    k = 0
    for framing in ("cl", "chunked", "close"):
        for keep in (True, False):
            for extra in EXTRAS:
                for status in (200, 204, 304, 205, 404):
                    if status in (204, 304) and extra in ("short", "pre100"):
                        continue
                    for m in ("GET", "HEAD", "POST", "head"):  # "head": a method token in lower case is not HEAD (servers send a body)
                        for b in BEHAVIOURS:
                            for seg in (None, 1, 13):
                                for maxsize, retries in ((1, False), (1, 3), (2, 1)):
                                    k += 1
                                    if tier == "quick" and k % 5:
                                        continue
                                    sv = {"status": status, "framing": framing, "keep": keep, "extra": extra, "seg": seg, "n": 40, "late": core.pick(k, 1, (None, 9, 12, 0)), "trap": core.pick(k, 2, (True, False))}
                                    yield {"kind": "own", "maxsize": maxsize, "retries": retries, "requests": [{"m": m, "b": b}, {"m": "GET", "b": "read"}, {"m": core.pick(k, 3, ("GET", "POST")), "b": "stream"}], "server": [sv]}


def overlap_cases(tier):
    """Two or three responses in flight at once (maxsize 2), each with its own server extra, then a last request."""
    k = 0
    for e1 in EXTRAS:
        for e2 in EXTRAS:
            for framing in ("cl", "chunked"):
                for status in (200, 204):
                    for retries in (False, 1, 3):
                        for last in ("read", "stream"):
                            k += 1
                            if tier == "quick" and k % 2:
                                continue
                            svs = [{"status": status, "framing": framing, "extra": e1, "n": 30}, {"status": status, "framing": framing, "extra": e2, "n": 30}]
                            yield {"kind": "own", "maxsize": 2, "retries": retries, "requests": [{"m": "GET", "b": "hold"}, {"m": "GET", "b": "hold"}, {"m": "GET", "b": last}, {"m": "GET", "b": "read"}], "server": svs}


def _hyp():
    from hypothesis import strategies as st

    sv = st.fixed_dictionaries({
        "status": st.sampled_from([200, 200, 200, 204, 304, 201, 205, 404, 500]), "framing": st.sampled_from(["cl", "chunked", "close"]), "keep": st.sampled_from([True, True, False]),
        "extra": st.sampled_from(EXTRAS + [None, None]), "seg": st.sampled_from([None, None, 1, 2, 7, 13, 100]), "n": st.sampled_from([0, 1, 5, 9, 10, 40, 200, 3000]),
        "cs": st.lists(st.integers(1, 40), max_size=3), "late": st.sampled_from([None, None, None, 0, 5, 9, 12, 100]), "trap": st.booleans(),
    })
    rq = st.fixed_dictionaries({"m": st.sampled_from(["GET", "GET", "HEAD", "POST", "head"]), "b": st.sampled_from(BEHAVIOURS)})
    return st.fixed_dictionaries({
        "kind": st.just("own"), "maxsize": st.sampled_from([1, 1, 2]), "retries": st.sampled_from([False, 1, 3]),
        "requests": st.lists(rq, min_size=2, max_size=4), "server": st.lists(sv, min_size=1, max_size=6),
    })


def shards(tier, seed):
    total = sum(1 for _ in enum_cases(tier))
    out = [{"part": "product", "tier": tier, "lo": a, "hi": b} for a, b in core.split_range(total, 32 if tier == "quick" else 96)]
    n = _scale(8000 if tier == "quick" else 150000)
    nsh = 16 if tier == "quick" else 48
    for i in range(nsh):
        out.append({"part": "random", "n": n // nsh, "seed": core.derive_seed(seed, "r", i)})
    return out


def run_shard(spec):
    col = core.Collector()
    if spec["part"] == "product":
        for i, case in enumerate(enum_cases(spec["tier"])):
            if spec["lo"] <= i < spec["hi"]:
                col.case(case, nontrivial(case), classes(case), check_case(case), distinct_by_construction=True)
    else:

        def body(case):
            col.case(case, nontrivial(case), classes(case), check_case(case))

        core.hyp_run(_hyp(), spec["n"], spec["seed"], body)
    return col


def presets():
    return [
        {"kind": "own", "maxsize": 1, "retries": False, "requests": [{"m": "GET", "b": "readk-release"}, {"m": "GET", "b": "read"}], "server": [{"n": 200, "seg": 50}]},
        {"kind": "own", "maxsize": 1, "retries": 3, "requests": [{"m": "HEAD", "b": "read"}, {"m": "GET", "b": "read"}], "server": [{"extra": "force_body"}]},
        {"kind": "own", "maxsize": 1, "retries": 1, "requests": [{"m": "GET", "b": "read"}, {"m": "GET", "b": "stream"}], "server": [{"extra": "second"}]},
        {"kind": "own", "maxsize": 1, "retries": 3, "requests": [{"m": "GET", "b": "release"}, {"m": "POST", "b": "read"}], "server": [{"framing": "chunked", "n": 3000, "seg": 100}]},
    ]


def min_nontrivial(tier):
    return 3000
