"""Response construction and consumption shared by C12 / C13 / C03.

A *response case* (JSON):
  {"n": payload size, "pat": int, "coding": [..codings in the order applied..], "members": k,
   "framing": "cl"|"chunked"|"close", "chunk_sizes": [..], "ext": bool, "seg": None|int|[ints],
   "decode": bool, "ops": [[api, arg], ...], "tail": [api, arg], "via": "conn"|"pool"|"pool-preload"}
Encoders are the stdlib / zstandard *compressors*, i.e. independent of urllib3's decoders.
"""
from __future__ import annotations

import gzip as _gzip
import io
import zlib

from . import fakenet

FAMILY_A = {"read", "read1", "readinto", "readloop", "read1loop", "readintoloop", "data", "drain"}
FAMILY_B = {"stream", "read_chunked", "iter"}


def payload_bytes(n: int, pat: int = 0) -> bytes:
    if n <= 0:
        return b""
    out = bytearray()
    i = pat
    while len(out) < n:
        out += b"%d:%s\n" % (i, b"abcdefghijklmnopqrstuvwxyz"[: 1 + (i * 7) % 26] * (1 + i % 3))
        if i % 5 == 0:
            out += bytes([(i * 37 + k * 11 + pat) % 256 for k in range(9)])
        i += 1
    return bytes(out[:n])


def _split(data: bytes, k: int) -> list:
    if k <= 1 or len(data) < k:
        return [data]
    step = len(data) // k
    parts = [data[i * step : (i + 1) * step] for i in range(k - 1)]
    parts.append(data[(k - 1) * step :])
    return parts


def encode_one(data: bytes, coding: str, members: int = 1) -> bytes:
    c = coding.strip().lower()
    if c == "identity":
        return data
    if c in ("gzip", "x-gzip"):
        out = b""
        for part in _split(data, members):
            co = zlib.compressobj(6, zlib.DEFLATED, 31)
            out += co.compress(part) + co.flush()
        return out
    if c == "deflate":
        return zlib.compress(data)
    if c == "deflate-raw":
        co = zlib.compressobj(6, zlib.DEFLATED, -15)
        return co.compress(data) + co.flush()
    if c == "zstd":
        import zstandard

        out = b""
        for i, part in enumerate(_split(data, members)):
            if i % 2 == 0:
                out += zstandard.ZstdCompressor().compress(part)
            else:
                co = zstandard.ZstdCompressor().compressobj()
                out += co.compress(part) + co.flush()
        return out
    raise ValueError(coding)


def header_name(coding: str) -> str:
    return "deflate" if coding == "deflate-raw" else coding


def encode(data: bytes, codings, members: int = 1) -> bytes:
    out = data
    for i, c in enumerate(codings):
        out = encode_one(out, c, members if i == len(codings) - 1 or len(codings) == 1 else 1)
    return out


def frame(content: bytes, case) -> tuple[bytes, bytes]:
    """-> (head bytes, framed body bytes)"""
    hdrs = []
    cod = [header_name(c) for c in case.get("coding", []) if c != "identity"]
    if cod:
        hdrs.append((b"Content-Encoding", ", ".join(cod).encode()))
    framing = case.get("framing", "cl")
    if framing == "chunked":
        ext = b";ext=1" if case.get("ext") else b""
        # chunk-size = 1*HEXDIG: lower case, upper case, or with leading zeros
        body = fakenet.chunked(content, case.get("chunk_sizes") or (), ext, fmt={"x": b"%x", "X": b"%X", "04x": b"%04x"}[case.get("hexfmt", "x")])
        hdrs.append((b"Transfer-Encoding", b"chunked"))
    elif framing == "cl":
        body = content
        # cl_list: the value repeated in one field ("42, 42"), which RFC 9110 8.6 lets a recipient accept and urllib3 does
        hdrs.append((b"Content-Length", (b"%d, %d" if case.get("cl_list") else b"%d") % ((len(content),) * (2 if case.get("cl_list") else 1))))
    else:
        body = content
        hdrs.append((b"Connection", b"close"))
    hdrs += [(k.encode(), v.encode()) for k, v in case.get("extra_headers", [])]
    head = b"HTTP/1.1 200 OK\r\n" + b"".join(k + b": " + v + b"\r\n" for k, v in hdrs) + b"\r\n"
    return head, body


class OneShot(fakenet.Endpoint):
    """Answers every request with the prepared bytes (then EOF when asked)."""

    def __init__(self, raw: bytes, seg=None, eof: bool = False, second: bytes | None = None, drop_first: bool = False):
        super().__init__()
        self.raw, self.seg, self.eof, self.second = raw, seg, eof, second
        self.served = 0
        self.drop_first = drop_first  # the first request is answered by closing the connection (the client retries)

    def on_send(self, sock, data):
        sock.tx += data
        from . import reqwire

        msgs, _, _ = reqwire.parse_stream(bytes(sock.tx))
        while sock.state.get("answered", 0) < len(msgs):
            sock.state["answered"] = sock.state.get("answered", 0) + 1
            if self.drop_first:
                self.drop_first = False
                sock.rx.append(fakenet.EOF)
                continue
            self.served += 1
            if self.served == 1 or self.second is None:
                self.reply(sock, self.raw, self.seg, then="eof" if self.eof else None)
            else:
                self.reply(sock, self.second)


class Runaway(Exception):
    """The reader keeps producing data far beyond the body (guards the harness against endless loops)."""


class _Pieces(list):
    def __init__(self, limit):
        super().__init__()
        self.limit = limit
        self.total = 0

    def append(self, item):
        super().append(item)
        self.total += len(item[2])
        if self.total > self.limit or len(self) > self.limit:
            raise Runaway(f"{len(self)} pieces / {self.total} bytes returned, body has only about {self.limit // 3} bytes")


def consume(resp, ops, tail, decode: bool, expected_len: int = 1 << 30):
    """Run the call sequence; returns (pieces, error). pieces = [(api, arg, bytes)]"""
    pieces = _Pieces(3 * expected_len + 1000)
    try:
        for api, arg in ops:
            pieces.append((api, arg, _call(resp, api, arg, decode)))
        api, arg = tail
        if api == "read":
            pieces.append(("read", None, resp.read(decode_content=decode)))
        elif api == "data":
            pieces.append(("data", None, resp.data))
        elif api in ("readloop", "read1loop", "readintoloop"):
            base = api[:-4]
            for _ in range(3 * expected_len + 1000):
                d = _call(resp, base, arg, decode)
                if not d:
                    break
                pieces.append((base, arg, d))
        elif api == "stream":
            for d in resp.stream(arg, decode_content=decode):
                pieces.append(("stream", arg, d))
        elif api == "read_chunked":
            for d in resp.read_chunked(arg, decode_content=decode):
                pieces.append(("read_chunked", arg, d))
        elif api == "iter":
            for d in resp:
                pieces.append(("iter", None, d))
        elif api == "drain":
            resp.drain_conn()  # discards the rest (what a pool does with a redirect / retry body); presents no data
        else:
            raise ValueError(api)
    except BaseException as e:  # noqa: BLE001 - classified by the caller
        if type(e).__name__ == "CaseTimeout":
            raise
        return pieces, e
    return pieces, None


def _call(resp, api, arg, decode):
    if api == "read":
        return resp.read(arg, decode_content=decode)
    if api == "read1":
        return resp.read1(arg, decode_content=decode)
    if api == "rc_refused":
        # read_chunked() on a response that is not chunked: the documented refusal (ResponseNotChunked); it presents no
        # data and must leave the body readable for the calls that follow
        from urllib3.exceptions import ResponseNotChunked

        try:
            for _ in resp.read_chunked():
                break
        except ResponseNotChunked:
            return b""
        raise AssertionError("read_chunked() on a non-chunked response did not raise ResponseNotChunked")
    if api == "readinto":
        buf = bytearray(arg)
        n = resp.readinto(buf)
        return bytes(buf[:n])
    raise ValueError(api)


def families(case) -> set:
    fam = set()
    for api, _ in list(case.get("ops", [])) + [case["tail"]]:
        if api in FAMILY_B:
            fam.add("B")
        elif api in FAMILY_A and not (api == "read" and _ == 0):
            fam.add("A")
    return fam
