"""Coverage-guided fuzzing of a property's own oracle with atheris (libFuzzer).

    python -m vlib.fuzz <Cxx> <outdir> <runs> <seed> [<strategy name>]

The fuzz target is `hypothesis.given(strategy).hypothesis.fuzz_one_input`: libFuzzer mutates the byte
string from which Hypothesis builds a structured case (the same strategy the property's random part
uses), urllib3 is imported under atheris' instrumentation so that coverage inside urllib3 guides the
mutation, and the property's `check_case` is the oracle inside the target.  Failures do not crash the
target (libFuzzer would stop at the first one): every failing case is appended to
<outdir>/findings.jsonl and the parent shard re-executes it through the normal replay path.
Pinned only approximately by -seed/-runs with a fresh corpus directory; the saved case is the
reproducible unit.
"""
from __future__ import annotations

import importlib
import json
import os
import sys


def main(argv) -> int:
    prop, outdir, runs, seed = argv[1], argv[2], int(argv[3]), int(argv[4])
    which = argv[5] if len(argv) > 5 else "default"
    os.makedirs(os.path.join(outdir, "corpus"), exist_ok=True)
    import atheris

    with atheris.instrument_imports(include=["urllib3"], enable_loader_override=False):
        import urllib3  # noqa: F401

        mod = importlib.import_module(f"props.{prop.lower()}")
    from hypothesis import HealthCheck, given, settings

    from . import core

    strat, to_case = mod.fuzz_strategy(which)
    counter = {"n": 0, "invalid": 0, "findings": 0}
    cpath = os.path.join(outdir, "count.json")
    fpath = os.path.join(outdir, "findings.jsonl")
    seen: set = set()

    @settings(database=None, deadline=None, derandomize=False, suppress_health_check=list(HealthCheck), max_examples=10**9)
    @given(strat)
    def target(value):
        counter["n"] += 1
        try:
            case = to_case(value)
            fails = mod.check_case(case)
        except core.InvalidCase:
            counter["invalid"] += 1
            fails = []
        if fails:
            fs = [f.to_json() if isinstance(f, core.Failure) else f for f in fails]
            key = core.canon([(f["clause"], f["sig"]) for f in fs])
            if key not in seen and len(seen) < 200:
                seen.add(key)
                counter["findings"] += 1
                with open(fpath, "a") as fh:
                    fh.write(json.dumps({"case": case, "failures": fs}, default=core._default) + "\n")
        if counter["n"] % 200 == 0:
            with open(cpath, "w") as fh:
                json.dump(counter, fh)

    # Hypothesis needs enough bytes to finish an example: start from a few long pseudo-random inputs
    # (a pure function of the seed) and let libFuzzer use long inputs from the beginning
    import hashlib

    for i in range(8):
        blob = b"".join(hashlib.blake2b(b"%d:%d:%d" % (seed, i, k), digest_size=64).digest() for k in range(64 if i % 2 else 16))
        with open(os.path.join(outdir, "corpus", "seed%d" % i), "wb") as fh:
            fh.write(blob if i % 4 else bytes(len(blob)))
    atheris.Setup([sys.argv[0], f"-runs={runs}", f"-seed={seed if seed else 1}", "-max_len=8192", "-len_control=0", "-print_final_stats=0", "-verbosity=0", "-artifact_prefix=" + os.path.join(outdir, "artifact-"), "-report_slow_units=600", os.path.join(outdir, "corpus")], target.hypothesis.fuzz_one_input)
    with open(cpath, "w") as fh:
        json.dump(counter, fh)
    atheris.Fuzz()
    return 0


def run_campaign(prop: str, runs: int, seed: int, which: str = "default", timeout_s: int = 3600):
    """Parent side: run one campaign in a subprocess, return (executions, [cases that failed there])."""
    import shutil
    import subprocess
    import tempfile

    here = os.path.dirname(os.path.dirname(os.path.abspath(__file__)))
    deps = os.path.join(here, ".deps")
    if not os.path.isdir(os.path.join(deps, "atheris")):
        return 0, [], "atheris not installed (setup.sh could not install the wheel)"
    work = os.path.join(here, ".work")
    os.makedirs(work, exist_ok=True)
    out = tempfile.mkdtemp(prefix=f"fuzz.{prop}.", dir=work)
    try:
        env = dict(os.environ)
        env["PYTHONPATH"] = os.pathsep.join([os.environ.get("VERIF_REPO_SRC", "/repo/src"), here, deps])
        env["PYTHONHASHSEED"] = "0"
        pr = subprocess.run([sys.executable, "-m", "vlib.fuzz", prop, out, str(runs), str(seed), which], env=env, cwd=here, capture_output=True, text=True, timeout=timeout_s)
        n = 0
        try:
            n = json.load(open(os.path.join(out, "count.json")))["n"]
        except Exception:  # noqa: BLE001
            pass
        cases = []
        fp = os.path.join(out, "findings.jsonl")
        if os.path.exists(fp):
            for line in open(fp):
                cases.append(json.loads(line)["case"])
        note = "" if pr.returncode == 0 or n > 0 else (pr.stderr or pr.stdout)[-400:]
        return n, cases, note
    finally:
        shutil.rmtree(out, ignore_errors=True)


if __name__ == "__main__":
    sys.exit(main(sys.argv))


# ---------------------------------------------------------------------- helpers for property modules


def shards(prop, tier, seed, whichs=("default",), quick=(2, 3000), thorough=(16, 150000)):
    from . import core

    n, runs = quick if tier == "quick" else thorough
    scale = float(os.environ.get("VERIF_SCALE", "1"))
    runs = max(200, int(runs * scale))
    return [{"part": "atheris", "prop": prop, "which": whichs[i % len(whichs)], "runs": runs, "seed": core.derive_seed(seed, "atheris", i)} for i in range(n)]


def run_shard(col, mod, spec):
    n, cases, note = run_campaign(spec["prop"], spec["runs"], spec["seed"], spec["which"])
    col.evaluations += n
    col.classes["atheris-executions"] += n
    col.extra["atheris_campaigns"] = 1
    if note:
        col.notes["atheris-skipped:" + note[:80]] += 1
    for case in cases:
        try:
            fails = mod.check_case(case)
        except Exception:  # noqa: BLE001 - InvalidCase etc.
            continue
        col.case(case, True, ["atheris-finding"], fails)
