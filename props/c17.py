"""C17 - the pool cache is bounded, consistent, and never leaks an evicted pool."""
from __future__ import annotations

import gc
import itertools
import os

from vlib import core, fakenet, sched
from vlib.core import Failure

PROP = "C17"
RULE = (
    "three families. (seq) every operation sequence of length <= L (L=5 quick, 6 thorough) over get / set / del / pop / in / "
    "clear / len / keys on 3 keys, and Hypothesis sequences of length <= 12 over 4 keys, for maxsize 0..3, on a real "
    "RecentlyUsedContainer with a recording dispose callback and an instrumented lock, compared after every step with a "
    "reference LRU map. (conc) 2-3 threads doing 1-2 container operations each under the owned scheduler: every schedule "
    "with <= 2 preemptions at line granularity inside the container's methods (3 in thorough, plus random deeper "
    "schedules); the history must be linearizable w.r.t. the reference LRU, dispose exactly once per removed value and "
    "never while the calling thread holds the container's lock. (pm) PoolManager on the in-memory network: num_pools 1..3, "
    "4 origins, sequences of request / connection_from_url / clear with responses held across evictions, and scheduled "
    "races of connection_from_url on equal and different keys. Non-trivial = an eviction / replacement happened with a "
    "response in flight, or a schedule has a preemption inside a container method."
)
ASSUMPTIONS = [
    "the reference LRU in props/c17.py: a get (also through `in`, .get, pop) refreshes recency; insert first, then evict the least recently used entry",
    "vlib/sched.py owns the schedule: preemption at line events of the container / PoolManager functions and at every lock operation; preemption inside a single bytecode or inside C code is out of reach",
    "sockets of an evicted pool are required to be closed after the last reference to the pool and its responses is dropped and gc.collect() ran",
]
EXHAUSTIVE = {"quick": False, "thorough": False}

KEYS3 = ["a", "b", "c"]
KEYS4 = ["a", "b", "c", "d"]


def _scale(n):
    return max(1, int(n * float(os.environ.get("VERIF_SCALE", "1"))))


def ops_for(keys):
    out = []
    for k in keys:
        out += [["get", k], ["set", k], ["del", k], ["in", k], ["pop", k]]
    out += [["clear"], ["len"], ["keys"], ["mget", keys[0]]]
    return out


class RefLRU:
    def __init__(self, maxsize):
        self.maxsize = maxsize
        self.order: list = []  # keys, least recently used first
        self.vals: dict = {}
        self.disposed: list = []

    def _touch(self, k):
        self.order.remove(k)
        self.order.append(k)

    def apply(self, op, newval=None):
        kind = op[0]
        k = op[1] if len(op) > 1 else None
        if kind == "get":
            if k not in self.vals:
                return ("KeyError",)
            self._touch(k)
            return ("ok", self.vals[k])
        if kind == "mget":  # Mapping.get with a default
            if k not in self.vals:
                return ("ok", None)
            self._touch(k)
            return ("ok", self.vals[k])
        if kind == "in":
            if k not in self.vals:
                return ("ok", False)
            self._touch(k)
            return ("ok", True)
        if kind == "set":
            if k in self.vals:
                self.disposed.append(self.vals[k])
                self.vals[k] = newval
                self._touch(k)
            else:
                self.vals[k] = newval
                self.order.append(k)
                if len(self.order) > self.maxsize:
                    victim = self.order.pop(0)
                    self.disposed.append(self.vals.pop(victim))
            return ("ok", None)
        if kind in ("del", "pop"):
            if k not in self.vals:
                return ("KeyError",)
            v = self.vals.pop(k)
            self.order.remove(k)
            self.disposed.append(v)
            return ("ok", v if kind == "pop" else None)
        if kind == "clear":
            for kk in list(self.order):
                self.disposed.append(self.vals[kk])
            self.order, self.vals = [], {}
            return ("ok", None)
        if kind == "len":
            return ("ok", len(self.order))
        if kind == "keys":
            return ("ok", sorted(self.order))
        raise core.InvalidCase


def real_apply(c, op, newval=None):
    kind = op[0]
    k = op[1] if len(op) > 1 else None
    try:
        if kind == "get":
            return ("ok", c[k])
        if kind == "mget":
            return ("ok", c.get(k))
        if kind == "in":
            return ("ok", k in c)
        if kind == "set":
            c[k] = newval
            return ("ok", None)
        if kind == "del":
            del c[k]
            return ("ok", None)
        if kind == "pop":
            return ("ok", c.pop(k))
        if kind == "clear":
            c.clear()
            return ("ok", None)
        if kind == "len":
            return ("ok", len(c))
        if kind == "keys":
            return ("ok", sorted(c.keys()))
    except KeyError:
        return ("KeyError",)
    raise core.InvalidCase


class _DepthLock:
    """Wraps the container's own lock and counts the nesting depth of the current holder."""

    def __init__(self, inner):
        self.inner = inner
        self.depth = 0

    def __enter__(self):
        self.inner.__enter__()
        self.depth += 1
        return self

    def __exit__(self, *a):
        self.depth -= 1
        return self.inner.__exit__(*a)

    def acquire(self, *a, **kw):
        r = self.inner.acquire(*a, **kw)
        if r:
            self.depth += 1
        return r

    def release(self):
        self.depth -= 1
        return self.inner.release()


def run_seq(case) -> list[Failure]:
    from urllib3._collections import RecentlyUsedContainer

    maxsize, ops = case["maxsize"], case["ops"]
    if maxsize not in (0, 1, 2, 3) or not isinstance(ops, list) or len(ops) > 14:
        raise core.InvalidCase
    disposed: list = []
    held_at_dispose: list = []
    c = RecentlyUsedContainer(maxsize, dispose_func=lambda v: (disposed.append(v), held_at_dispose.append(lock.depth)))
    lock = _DepthLock(c.lock)
    c.lock = lock
    ref = RefLRU(maxsize)
    fails: list[Failure] = []
    sig = {"part": "seq", "maxsize": maxsize}
    for i, op in enumerate(ops):
        if not isinstance(op, list) or op[0] not in ("get", "set", "del", "in", "pop", "clear", "len", "keys", "mget") or (len(op) > 1 and op[1] not in KEYS4):
            raise core.InvalidCase
        val = "v%d" % i
        got = real_apply(c, op, val)
        want = ref.apply(op, val)
        if got != want:
            fails.append(Failure("result", {**sig, "op": op[0]}, f"maxsize={maxsize} ops={ops}: step {i} {op} returned {got}, reference {want}"))
            break
        state = (sorted(c.keys()), len(c), list(c._container.keys()))
        if state != (sorted(ref.order), len(ref.order), ref.order):
            fails.append(Failure("state", {**sig, "op": op[0], "what": "order" if state[0] == sorted(ref.order) else "contents"}, f"maxsize={maxsize} ops={ops}: after step {i} {op} the container holds {state[2]} (len {state[1]}), reference {ref.order}"))
            break
        if len(c) > maxsize:
            fails.append(Failure("bound", sig, f"maxsize={maxsize} ops={ops}: {len(c)} entries after step {i}"))
        if disposed != ref.disposed:
            kind = "twice" if len(disposed) > len(set(disposed)) else ("missing" if len(disposed) < len(ref.disposed) else "wrong")
            fails.append(Failure("dispose", {**sig, "op": op[0], "kind": kind}, f"maxsize={maxsize} ops={ops}: after step {i} {op} disposed {disposed}, reference {ref.disposed}"))
            break
    if any(held_at_dispose):
        fails.append(Failure("dispose-under-lock", sig, f"maxsize={maxsize} ops={ops}: dispose callback ran with the container lock held (depths {held_at_dispose})"))
    return fails


# --------------------------------------------------------------------------- (conc) scheduled threads on one container

CONTAINER_FUNCS = [("_collections.py", n) for n in ("__getitem__", "__setitem__", "__delitem__", "__len__", "clear", "keys")]


def _linearizable(history, maxsize, init_ops, final_order, final_disposed):
    """history = [(start, end, op, val, result)]; is there a sequential order respecting real time that explains it?"""
    n = len(history)
    for perm in itertools.permutations(range(n)):
        ok = True
        pos = {h: i for i, h in enumerate(perm)}
        for a in range(n):
            for b in range(n):
                if history[a][1] < history[b][0] and pos[a] > pos[b]:
                    ok = False
                    break
            if not ok:
                break
        if not ok:
            continue
        ref = RefLRU(maxsize)
        for j, op in enumerate(init_ops):
            ref.apply(op, "init%d" % j)
        good = True
        for h in perm:
            _, _, op, val, result = history[h]
            if ref.apply(op, val) != result:
                good = False
                break
        if good and ref.order == final_order and sorted(ref.disposed) == sorted(final_disposed):
            return True
    return False


def run_conc_once(case, decisions=None, random_seq=None, opcode=False):
    import urllib3._collections as uc

    maxsize, init_ops, threads = case["maxsize"], case["init"], case["threads"]
    disposed: list = []
    dispose_locked: list = []
    saved = uc.RLock
    uc.RLock = sched.CoopRLock
    try:
        c = uc.RecentlyUsedContainer(maxsize, dispose_func=lambda v: (disposed.append(v), dispose_locked.append(c.lock.held_by_me())))
    finally:
        uc.RLock = saved
    for j, op in enumerate(init_ops):
        real_apply(c, op, "init%d" % j)
    s = sched.Scheduler(decisions=decisions, random_seq=random_seq, targets=CONTAINER_FUNCS, opcode_targets=CONTAINER_FUNCS[:2] if opcode else ())
    history: list = []

    def body(ti, ops):
        def run():
            for oi, op in enumerate(ops):
                start = s.points
                res = real_apply(c, op, "t%dv%d" % (ti, oi))
                history.append((start, s.points, op, "t%dv%d" % (ti, oi), res))
        return run

    for ti, ops in enumerate(threads):
        s.spawn("t%d" % ti, body(ti, ops))
    s.run()
    return s, (c, history, disposed, dispose_locked)


def check_conc(case, s, obs) -> list[Failure]:
    c, history, disposed, dispose_locked = obs
    fails: list[Failure] = []
    sig = {"part": "conc", "maxsize": case["maxsize"]}
    brief = f"{ {k: v for k, v in case.items() if k != 'kind'} } schedule={s.taken} history={[(h[2], h[4]) for h in history]}"
    if s.deadlock or s.runaway:
        fails.append(Failure("deadlock", sig, f"deadlock {s.deadlock} runaway={s.runaway}: {brief}"))
        return fails
    for t in s.threads:
        if t.exc is not None:
            fails.append(Failure("exception", {**sig, "exc": type(t.exc).__name__}, f"thread {t.name} raised {type(t.exc).__name__}: {t.exc}: {brief}"))
    if fails:
        return fails
    if any(dispose_locked):
        fails.append(Failure("dispose-under-lock", sig, f"dispose ran while the calling thread held the container lock: {brief}"))
    if len(disposed) != len(set(disposed)):
        fails.append(Failure("dispose", {**sig, "kind": "twice"}, f"a value was disposed twice {disposed}: {brief}"))
    final_order = list(c._container.keys())
    if len(final_order) > case["maxsize"]:
        fails.append(Failure("bound", sig, f"{len(final_order)} entries with maxsize {case['maxsize']}: {brief}"))
    init_disposed_count = 0
    if not _linearizable(history, case["maxsize"], case["init"], final_order, disposed):
        fails.append(Failure("linearizable", sig, f"no sequential order explains the results, final order {final_order} and disposed {disposed}: {brief}"))
    return fails


def run_conc_case(case) -> list[Failure]:
    """Replay of one concrete schedule (case carries 'decisions' as [[index, tid], ...])."""
    dec = {int(i): int(t) for i, t in case.get("decisions", [])}
    s, obs = run_conc_once(case, decisions=dec, random_seq=case.get("random_seq"), opcode=bool(case.get("opcode")))
    return check_conc(case, s, obs)


# --------------------------------------------------------------------------- (pm) PoolManager

ORIGINS = ["http://a.test", "http://b.test", "http://c.test:8080", "http://d.test"]


class _TagServer(fakenet.Endpoint):
    def handle(self, sock, req):
        body = fakenet.tag_body(sock.addr[0].encode() + req.target, 60, len(self.requests))
        self.last_body = body
        self.bodies = getattr(self, "bodies", {})
        self.bodies[(sock.addr[0], req.target.decode("latin-1"))] = body
        self.reply(sock, fakenet.response_bytes(200, body=body))


def run_pm(case) -> list[Failure]:
    import urllib3

    num_pools, ops = case["num_pools"], case["ops"]
    if num_pools not in (1, 2, 3) or not isinstance(ops, list) or len(ops) > 16:
        raise core.InvalidCase
    mgr = case.get("mgr", "pm")
    if mgr not in ("pm", "proxy") or (mgr == "proxy" and any(op[0] not in ("cfu", "clear") for op in ops)):
        raise core.InvalidCase  # through a ProxyManager only the cache itself is exercised (https origins = one pool each)
    ORIGINS = globals()["ORIGINS"] if mgr == "pm" else [o.replace("http://", "https://") for o in globals()["ORIGINS"]]
    dflt_port = 80 if mgr == "pm" else 443
    srv = _TagServer()
    fails: list[Failure] = []
    sig = {"part": "pm", "num_pools": num_pools}
    if mgr == "proxy":
        sig["mgr"] = "proxy"
    ref_order: list = []  # origin indices, LRU first
    held: list = []  # (response, origin idx, target, pool)
    evicted_with_inflight = False
    brief = f"{ {k: v for k, v in case.items() if k != 'kind'} }"
    with fakenet.Net(srv) as net:
        pm = urllib3.PoolManager(num_pools=num_pools) if mgr == "pm" else urllib3.ProxyManager("http://proxy.test:3128", num_pools=num_pools)
        pools_seen: dict = {}

        def touch(i):
            nonlocal evicted_with_inflight
            if i in ref_order:
                ref_order.remove(i)
            ref_order.append(i)
            if len(ref_order) > num_pools:
                victim = ref_order.pop(0)
                pools_seen.pop(victim, None)
                if any(h[1] == victim for h in held):
                    evicted_with_inflight = True

        for step, op in enumerate(ops):
            kind = op[0]
            if kind in ("request", "hold", "cfu"):
                i = op[1]
                if i not in (0, 1, 2, 3):
                    raise core.InvalidCase
                url = ORIGINS[i] + "/s%d" % step
                try:
                    if kind == "cfu":
                        p = pm.connection_from_url(url)
                    else:
                        r = pm.request("GET", url, preload_content=(kind == "request"))
                        p = pm.connection_from_url(url) if False else None
                except Exception as e:  # noqa: BLE001
                    fails.append(Failure("exception", {**sig, "exc": type(e).__name__, "op": kind}, f"step {step} {op}: {type(e).__name__}: {e}: {brief}"))
                    break
                touch(i)
                if kind == "cfu":
                    if i in pools_seen and pools_seen[i] is not p:
                        fails.append(Failure("same-pool", sig, f"step {step}: origin {ORIGINS[i]} is still cached but connection_from_url returned another pool object: {brief}"))
                    pools_seen[i] = p
                elif kind == "request":
                    want = srv.bodies.get((ORIGINS[i].split("//")[1].split(":")[0], "/s%d" % step))
                    if r.data != want:
                        fails.append(Failure("in-flight", {**sig, "what": "preloaded-body"}, f"step {step}: wrong body: {brief}"))
                else:
                    held.append((r, i, "/s%d" % step))
            elif kind == "clear":
                pm.clear()
                if held:
                    evicted_with_inflight = True
                ref_order.clear()
                pools_seen.clear()
            elif kind == "finish":
                if held:
                    r, i, target = held.pop(0)
                    try:
                        data = r.read()
                        r.release_conn()
                        want = srv.bodies.get((ORIGINS[i].split("//")[1].split(":")[0], target))
                        if data != want:
                            fails.append(Failure("in-flight", {**sig, "what": "body"}, f"step {step}: in-flight response of {ORIGINS[i]}{target} read {data[:30]!r}, server sent {want[:30]!r}: {brief}"))
                    except Exception as e:  # noqa: BLE001
                        fails.append(Failure("in-flight", {**sig, "what": "error", "exc": type(e).__name__}, f"step {step}: in-flight response of an evicted/cleared pool failed: {type(e).__name__}: {e}: {brief}"))
                    del r
            else:
                raise core.InvalidCase
            r = p = None  # the harness itself must not keep a pool alive through a response it no longer uses
            # ---- invariants after every step
            cached = pm.pools.keys()
            if len(cached) > num_pools:
                fails.append(Failure("bound", sig, f"step {step}: {len(cached)} pools cached, num_pools={num_pools}: {brief}"))
            got_hosts = sorted((k.key_host, k.key_port) for k in cached)
            want_hosts = sorted((ORIGINS[i].split("//")[1].split(":")[0], int(ORIGINS[i].rsplit(":", 1)[1]) if ORIGINS[i].count(":") == 2 else dflt_port) for i in ref_order)
            if got_hosts != want_hosts:
                fails.append(Failure("lru-victim", sig, f"step {step} {op}: cached {got_hosts}, reference LRU says {want_hosts}: {brief}"))
                break
            for k in cached:
                p = pm.pools._container.get(k)
                if p is not None and p.pool is None:
                    fails.append(Failure("cached-pool-closed", sig, f"step {step}: pool for {k.key_host} is cached but closed: {brief}"))
        # ---- finish everything in flight, drop references, collect: only sockets idle in CACHED pools may stay open
        while held:
            r, i, target = held.pop(0)
            try:
                data = r.read()
                r.release_conn()
                want = srv.bodies.get((ORIGINS[i].split("//")[1].split(":")[0], target))
                if data != want:
                    fails.append(Failure("in-flight", {**sig, "what": "body"}, f"end: in-flight response of {ORIGINS[i]}{target} read {data[:30]!r}: {brief}"))
            except Exception as e:  # noqa: BLE001
                fails.append(Failure("in-flight", {**sig, "what": "error", "exc": type(e).__name__}, f"end: in-flight response failed: {type(e).__name__}: {e}: {brief}"))
            del r
        pools_seen.clear()
        r = p = pool = None
        gc.collect()
        cached_hosts = {(k.key_host, k.key_port) for k in pm.pools.keys()}
        for s_ in net.sockets:
            if s_.connected and not s_.really_closed and (s_.addr[0], s_.addr[1]) not in cached_hosts:
                fails.append(Failure("evicted-socket-open", sig, f"socket #{s_.sid} to {s_.addr} is still open although its pool is no longer cached and nothing uses it: {brief}"))
                break
        for k in pm.pools.keys():
            pool = pm.pools._container.get(k)
            for conn in list(pool.pool.queue):
                if conn is not None and conn.sock is not None and getattr(conn.sock, "closed", False):
                    fails.append(Failure("cached-pool-closed", {**sig, "what": "idle-socket"}, f"an idle socket of the cached pool {k.key_host} was closed: {brief}"))
        pm.clear()
    case["_inflight_evicted"] = evicted_with_inflight
    return fails


# --------------------------------------------------------------------------- (race) connection_from_url under the scheduler

PM_FUNCS = [("poolmanager.py", n) for n in ("connection_from_pool_key", "_new_pool", "connection_from_context", "clear")] + CONTAINER_FUNCS


def run_race_once(case, decisions=None, random_seq=None):
    import urllib3
    import urllib3._collections as uc

    # the cooperative lock stays installed for the whole run: a container created DURING the run (a clear() that swaps
    # the container, say) must not bring a real lock under the scheduler
    saved = uc.RLock
    uc.RLock = sched.CoopRLock
    try:
        pm = urllib3.PoolManager(num_pools=case["num_pools"])
        return _run_race(case, pm, decisions, random_seq)
    finally:
        uc.RLock = saved


def _run_race(case, pm, decisions, random_seq):
    s = sched.Scheduler(decisions=decisions, random_seq=random_seq, targets=PM_FUNCS)
    results: dict = {}

    history: list = []  # (start point, end point, thread, index in thread, op, pool object or None)

    def body(ti, ops):
        def run():
            out = []
            for oi, op in enumerate(ops):
                start = s.points
                if op[0] == "cfu":
                    out.append(("cfu", op[1], pm.connection_from_url(ORIGINS[op[1]] + "/")))
                    history.append((start, s.points, ti, oi, op, out[-1][2]))
                elif op[0] == "clear":
                    pm.clear()
                    out.append(("clear",))
                    history.append((start, s.points, ti, oi, op, None))
            results[ti] = out
        return run

    for ti, ops in enumerate(case["threads"]):
        s.spawn("t%d" % ti, body(ti, ops))
    s.run()
    return s, (pm, results, history)


def _race_linearizable(history, num_pools) -> bool:
    """Is there a sequential order of the connection_from_url / clear calls, respecting real time and each thread's own
    order, in which an LRU cache of `num_pools` pools (hit -> the cached object, miss -> a pool object never handed out
    before) explains every returned object?"""
    n = len(history)
    before = [[(history[a][1] < history[b][0]) or (history[a][2] == history[b][2] and history[a][3] < history[b][3]) for b in range(n)] for a in range(n)]

    def search(done, cache, seen):
        if len(done) == n:
            return True
        for i in range(n):
            if i in done or any(before[j][i] and j not in done for j in range(n)):
                continue
            op, res = history[i][4], history[i][5]
            if op[0] == "clear":
                if search(done | {i}, (), seen):
                    return True
                continue
            d = dict(cache)
            if op[1] in d:
                if d[op[1]] != id(res):
                    continue
                nc = tuple((k, v) for k, v in cache if k != op[1]) + ((op[1], id(res)),)
                if search(done | {i}, nc, seen):
                    return True
            else:
                if id(res) in seen:
                    continue
                nc = cache + ((op[1], id(res)),)
                if len(nc) > num_pools:
                    nc = nc[1:]
                if search(done | {i}, nc, seen | {id(res)}):
                    return True
        return False

    return search(frozenset(), (), frozenset())


def check_race(case, s, obs) -> list[Failure]:
    pm, results, history = obs
    fails: list[Failure] = []
    sig = {"part": "race", "num_pools": case["num_pools"]}
    brief = f"{ {k: v for k, v in case.items() if k != 'kind'} } schedule={s.taken}"
    if s.deadlock or s.runaway:
        return [Failure("deadlock", sig, f"deadlock {s.deadlock}: {brief}")]
    for t in s.threads:
        if t.exc is not None:
            fails.append(Failure("exception", {**sig, "exc": type(t.exc).__name__}, f"thread {t.name} raised {type(t.exc).__name__}: {t.exc}: {brief}"))
    if fails:
        return fails
    has_clear = any(op[0] == "clear" for ops in case["threads"] for op in ops)
    distinct_origins = {op[1] for ops in case["threads"] for op in ops if op[0] == "cfu"}
    evictions_possible = len(distinct_origins) > case["num_pools"]
    by_origin: dict = {}
    for out in results.values():
        for r in out:
            if r[0] == "cfu":
                by_origin.setdefault(r[1], []).append(r[2])
    if not has_clear and not evictions_possible:
        for o, pools in by_origin.items():
            if any(p is not pools[0] for p in pools):
                fails.append(Failure("same-pool", {**sig, "racing": True}, f"racing requests for {ORIGINS[o]} obtained {len({id(p) for p in pools})} different pool objects: {brief}"))
    if not fails and not _race_linearizable(history, case["num_pools"]):
        fails.append(Failure("linearizable", {**sig, "clear": has_clear}, f"no sequential order of the calls explains which pool objects were returned {[(h[2], h[4], id(h[5]) % 100000 if h[5] is not None else None) for h in history]}: {brief}"))
    if len(pm.pools.keys()) > case["num_pools"]:
        fails.append(Failure("bound", sig, f"{len(pm.pools.keys())} pools cached: {brief}"))
    for k in pm.pools.keys():
        p = pm.pools._container.get(k)
        if p is not None and p.pool is None:
            fails.append(Failure("cached-pool-closed", sig, f"pool {k.key_host} cached but closed: {brief}"))
    return fails


def run_race_case(case):
    dec = {int(i): int(t) for i, t in case.get("decisions", [])}
    s, obs = run_race_once(case, decisions=dec, random_seq=case.get("random_seq"))
    return check_race(case, s, obs)


# --------------------------------------------------------------------------- dispatch


def check_case(case):
    k = case.get("kind")
    if k == "seq":
        return run_seq(case)
    if k == "conc":
        return run_conc_case(case)
    if k == "pm":
        return run_pm(case)
    if k == "race":
        return run_race_case(case)
    raise core.InvalidCase


CONC_CONFIGS = [
    {"maxsize": 1, "init": [], "threads": [[["set", "a"]], [["set", "b"]]]},
    {"maxsize": 1, "init": [["set", "a"]], "threads": [[["get", "a"]], [["set", "b"]]]},
    {"maxsize": 2, "init": [["set", "a"], ["set", "b"]], "threads": [[["get", "a"]], [["set", "c"]]]},
    {"maxsize": 2, "init": [["set", "a"]], "threads": [[["set", "a"]], [["del", "a"]]]},
    {"maxsize": 2, "init": [["set", "a"], ["set", "b"]], "threads": [[["clear"]], [["set", "c"]], [["get", "a"]]]},
    {"maxsize": 2, "init": [["set", "a"], ["set", "b"]], "threads": [[["get", "a"], ["set", "c"]], [["get", "b"], ["len"]]]},
    {"maxsize": 1, "init": [["set", "a"]], "threads": [[["set", "b"]], [["set", "c"]], [["keys"]]]},
    {"maxsize": 3, "init": [["set", "a"], ["set", "b"], ["set", "c"]], "threads": [[["get", "a"], ["set", "d"]], [["del", "b"], ["set", "b"]]]},
    {"maxsize": 0, "init": [], "threads": [[["set", "a"]], [["set", "a"]], [["len"]]]},
]
RACE_CONFIGS = [
    {"num_pools": 2, "threads": [[["cfu", 0]], [["cfu", 0]]]},
    {"num_pools": 2, "threads": [[["cfu", 0]], [["cfu", 0]], [["cfu", 1]]]},
    {"num_pools": 3, "threads": [[["cfu", 0], ["cfu", 1]], [["cfu", 1], ["cfu", 0]]]},
    {"num_pools": 1, "threads": [[["cfu", 0]], [["cfu", 1]]]},
    {"num_pools": 2, "threads": [[["cfu", 0]], [["clear"]], [["cfu", 0]]]},
    {"num_pools": 1, "threads": [[["cfu", 0], ["cfu", 0]], [["cfu", 1]], [["clear"]]]},
    {"num_pools": 2, "threads": [[["cfu", 0]], [["clear"], ["cfu", 0], ["cfu", 0]]]},
    {"num_pools": 2, "threads": [[["cfu", 0], ["cfu", 0]], [["clear"], ["cfu", 0]]]},
    {"num_pools": 2, "threads": [[["cfu", 0], ["cfu", 1]], [["clear"], ["cfu", 1], ["cfu", 0]]]},
    {"num_pools": 1, "threads": [[["cfu", 0], ["cfu", 0]], [["cfu", 1], ["cfu", 1]]]},
]


def seq_total(L, nops):
    return sum(nops**k for k in range(0, L + 1))


def shards(tier, seed):
    out = []
    L = 5 if tier == "quick" else 6
    ops = ops_for(KEYS3)
    # (seq) split on the first two operations
    firsts = list(itertools.product(range(len(ops)), repeat=2))
    nsh = 32 if tier == "quick" else 128
    for a, b in core.split_range(len(firsts), nsh):
        out.append({"part": "seq", "L": L, "lo": a, "hi": b})
    out.append({"part": "seq-short", "L": 1})
    for i in range(8 if tier == "quick" else 32):
        out.append({"part": "seq-random", "n": _scale(3000 if tier == "quick" else 30000), "seed": core.derive_seed(seed, "s", i)})
    for ci in range(len(CONC_CONFIGS)):
        out.append({"part": "conc", "config": ci, "bound": 2 if tier == "quick" else 3, "opcode": False})
        out.append({"part": "conc-random", "config": ci, "n": _scale(150 if tier == "quick" else 3000), "seed": core.derive_seed(seed, "c", ci), "opcode": tier != "quick"})
    for ci in range(len(RACE_CONFIGS)):
        out.append({"part": "race", "config": ci, "bound": 1 if tier == "quick" else 2})
        out.append({"part": "race-random", "config": ci, "n": _scale(100 if tier == "quick" else 2000), "seed": core.derive_seed(seed, "r", ci)})
    for i in range(8 if tier == "quick" else 32):
        out.append({"part": "pm", "n": _scale(400 if tier == "quick" else 4000), "seed": core.derive_seed(seed, "p", i)})
    return out


def run_shard(spec):
    col = core.Collector()
    part = spec["part"]
    if part in ("seq", "seq-short"):
        ops = ops_for(KEYS3)
        L = spec["L"]
        if part == "seq-short":
            prefixes = [()] + [(i,) for i in range(len(ops))]
            tails = [0]
        else:
            firsts = list(itertools.product(range(len(ops)), repeat=2))[spec["lo"] : spec["hi"]]
            prefixes = firsts
            tails = range(0, L - 2 + 1)
        for maxsize in (0, 1, 2, 3):
            for pre in prefixes:
                for tl in tails:
                    for rest in itertools.product(range(len(ops)), repeat=tl):
                        seq = [ops[i] for i in pre + rest]
                        case = {"kind": "seq", "maxsize": maxsize, "ops": seq}
                        fails = run_seq(case)
                        col.evaluations += 1
                        nt = any(o[0] in ("set", "del", "pop", "clear") for o in seq[:-1])
                        col.nontrivial_counted += 1 if nt else 0
                        if fails or not col.samples.get("seq"):
                            col.evaluations -= 1
                            col.nontrivial_counted -= 1 if nt else 0
                            col.case(case, nt, ["seq"], fails, distinct_by_construction=True)
                        else:
                            col.classes["seq"] += 1
    elif part == "seq-random":
        from hypothesis import strategies as st

        ops4 = ops_for(KEYS4)
        strat = st.fixed_dictionaries({"kind": st.just("seq"), "maxsize": st.integers(0, 3), "ops": st.lists(st.sampled_from(ops4), min_size=4, max_size=12)})
        core.hyp_run(strat, spec["n"], spec["seed"], lambda case: col.case(case, True, ["seq-random", "maxsize:%d" % case["maxsize"]], run_seq(case)))
    elif part in ("conc", "race"):
        base = (CONC_CONFIGS if part == "conc" else RACE_CONFIGS)[spec["config"]]
        runner, checker = (run_conc_once, check_conc) if part == "conc" else (run_race_once, check_race)

        def make_run(decisions, rs):
            s, obs = runner(base, decisions=decisions) if part == "race" else runner(base, decisions=decisions, opcode=spec.get("opcode", False))
            return s, checker(base, s, obs)

        for decisions, s, fails in sched.explore(make_run, spec["bound"], max_runs=40000):
            case = dict(base, kind=part, decisions=sorted([list(x) for x in decisions.items()]))
            preempt = any(t[4] for t in s.taken)
            col.case(case, preempt, [part, "%s-config:%d" % (part, spec["config"]), "preemptions:%d" % sum(1 for t in s.taken if t[4])], fails, distinct_by_construction=True)
            for k, v in s.func_events.items():
                col.notes["events:" + k] += v
    elif part in ("conc-random", "race-random"):
        from hypothesis import strategies as st

        p = part.split("-")[0]
        base = (CONC_CONFIGS if p == "conc" else RACE_CONFIGS)[spec["config"]]

        def body(seq):
            case = dict(base, kind=p, random_seq=list(seq), decisions=[])
            if p == "conc" and spec.get("opcode"):
                case["opcode"] = True
            s, obs = (run_conc_once(base, random_seq=seq, opcode=bool(spec.get("opcode"))) if p == "conc" else run_race_once(base, random_seq=seq))
            fails = (check_conc if p == "conc" else check_race)(base, s, obs)
            col.case(case, any(t[4] for t in s.taken), [part, "%s-config:%d" % (p, spec["config"])], fails)

        core.hyp_run(st.lists(st.integers(0, 63), min_size=5, max_size=200), spec["n"], spec["seed"], body)
    elif part == "pm":
        from hypothesis import strategies as st

        op = st.one_of(st.tuples(st.sampled_from(["request", "hold", "cfu", "hold"]), st.integers(0, 3)).map(list), st.just(["clear"]), st.just(["finish"]), st.just(["finish"]))
        strat = st.fixed_dictionaries({"kind": st.just("pm"), "num_pools": st.integers(1, 3), "ops": st.lists(op, min_size=2, max_size=12)})
        # every fifth case: the cache of a ProxyManager (https origins, one tunnelled pool each; lookups and clear only)
        pop = st.one_of(st.tuples(st.just("cfu"), st.integers(0, 3)).map(list), st.tuples(st.just("cfu"), st.integers(0, 3)).map(list), st.just(["clear"]))
        strat = st.one_of(strat, strat, strat, strat, st.fixed_dictionaries({"kind": st.just("pm"), "mgr": st.just("proxy"), "num_pools": st.integers(1, 3), "ops": st.lists(pop, min_size=2, max_size=12)}))

        def body(case):
            fails = run_pm(case)
            nt = case.pop("_inflight_evicted", False)
            col.case(case, nt or case.get("mgr") == "proxy", ["pm", "mgr:" + case.get("mgr", "pm"), "num_pools:%d" % case["num_pools"]] + (["eviction-with-response-in-flight"] if nt else []), fails)

        core.hyp_run(strat, spec["n"], spec["seed"], body)
    return col


def presets():
    return [
        {"kind": "seq", "maxsize": 2, "ops": [["set", "a"], ["set", "b"], ["get", "a"], ["set", "c"], ["keys"]]},
        {"kind": "seq", "maxsize": 0, "ops": [["set", "a"], ["len"], ["set", "a"]]},
        {"kind": "pm", "num_pools": 1, "ops": [["hold", 0], ["request", 1], ["finish"], ["cfu", 0]]},
        dict(CONC_CONFIGS[2], kind="conc", decisions=[]),
        dict(RACE_CONFIGS[0], kind="race", decisions=[]),
    ]


def shrinkable(case):
    return case.get("kind") in ("seq", "pm")


def min_nontrivial(tier):
    return 5000
