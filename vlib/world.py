"""A small in-memory internet on top of vlib.fakenet: several origins (http / https via vlib.nulltls),
forwarding and CONNECT proxies, one log of everything each party saw.

Every TCP dial is dispatched on the dialled (host, port): a listener is an origin or a proxy, plain or
TLS.  The byte stream of each socket is read structurally (vlib.reqwire); NULLTLS hello records mark
where a TLS layer starts and which name / verification settings the client used.  A request entry:

  {"sid", "listener": (host, port), "route": "direct" | "forward" | "tunnel" | "connect",
   "origin": (scheme, host, port) as the SERVER understands it, "msg": reqwire.Msg,
   "tls": [layer, ...]   layers established on this socket so far, outermost first,
   "serial": n}
"""
from __future__ import annotations

import errno

from . import fakenet, nulltls, reqwire


def hostkey(h: str) -> str:
    h = h.lower()
    if h.startswith("[") and h.endswith("]"):
        h = h[1:-1]
    return h


class World(fakenet.Endpoint):
    def __init__(self, handler=None, connect_policy=None):
        super().__init__()
        self.listeners: dict = {}
        self.handler = handler or (lambda world, entry: {"status": 200})
        self.connect_policy = connect_policy or (lambda world, sock, target, entry: {"status": 200})
        self.log: list = []  # every request any party parsed (CONNECTs included)
        self.refused: list = []  # dials to addresses nobody listens on
        self.violations: list = []  # protocol-level oddities seen by the servers (plaintext to a TLS port, ...)
        self.serial = 0
        self.origin_requests = 0
        self.fault_plan: dict = {}  # index of the origin request (0-based, CONNECTs not counted) -> "reset" | "eof" | "busy" (503 + Retry-After: 0)
        self.unknown_identity = nulltls.Identity([("DNS", "unknown.invalid")], trusted=False, label="unknown")

    # ---- topology
    def add_origin(self, scheme, host, port, identity=None):
        if scheme == "https" and identity is None:
            identity = nulltls.Identity([("IP Address" if _is_ip(host) else "DNS", hostkey(host))], label=f"{host}:{port}")
        self.listeners[(hostkey(host), port)] = {"kind": "origin", "tls": scheme == "https", "identity": identity, "scheme": scheme, "host": hostkey(host), "port": port}

    def add_proxy(self, scheme, host, port, identity=None):
        if scheme == "https" and identity is None:
            identity = nulltls.Identity([("DNS", hostkey(host))], label=f"proxy {host}:{port}")
        self.listeners[(hostkey(host), port)] = {"kind": "proxy", "tls": scheme == "https", "identity": identity, "scheme": scheme, "host": hostkey(host), "port": port}

    # ---- connect
    def on_connect(self, sock, sa):
        key = (hostkey(str(sa[0])), sa[1])
        lst = self.listeners.get(key)
        if lst is None:
            self.refused.append(key)
            raise ConnectionRefusedError(errno.ECONNREFUSED, "Connection refused")
        super().on_connect(sock, sa)
        st = sock.state
        st.update({"listener": lst, "pos": 0, "layers": [], "tunnel": None, "need_tls": lst["tls"], "nmsg": 0})

    # ---- bytes from the client
    def on_send(self, sock, data):
        sock.tx += data
        st = sock.state
        while True:
            buf = bytes(sock.tx[st["pos"] :])
            if not buf:
                return
            if buf.startswith(nulltls.HELLO[:1]):
                if len(buf) < len(nulltls.HELLO) and nulltls.HELLO.startswith(buf):
                    return
                if buf.startswith(nulltls.HELLO):
                    nl = buf.find(b"\n")
                    if nl < 0:
                        return
                    self._hello(sock, buf[len(nulltls.HELLO) : nl])
                    st["pos"] += nl + 1
                    continue
            msgs, left, err = reqwire.parse_stream(buf)
            if not msgs:
                if err is not None and not err.startswith(("head not", "chunk", "body shorter", "last chunk")):
                    self.violations.append(("unparsable", sock.sid, err, buf[:80]))
                return
            msg = msgs[0]
            st["pos"] += len(msg.raw)
            self._message(sock, msg)

    def _hello(self, sock, rest: bytes):
        st = sock.state
        parts = rest.decode("utf-8", "replace").split(" ")
        label, vm, ch, sni = parts[0], int(parts[1]), bool(int(parts[2])), " ".join(parts[3:])
        if st["tunnel"] is not None:
            tgt = st["tunnel"]
            lst = self.listeners.get((hostkey(tgt[0]), tgt[1]))
            ident = lst["identity"] if lst is not None and lst["identity"] is not None else self.unknown_identity
            role = "origin-in-tunnel"
            st["tunnel_tls"] = True
        else:
            lst = st["listener"]
            ident = lst["identity"] or self.unknown_identity
            role = lst["kind"]
            if not lst["tls"]:
                self.violations.append(("tls-to-plain-port", sock.sid, lst["host"], lst["port"]))
            st["need_tls"] = False
        layer = {"ctx": label, "verify_mode": vm, "check_hostname": ch, "sni": None if sni == "-" else sni, "role": role, "at": st["pos"], "identity": ident.id}
        st["layers"].append(layer)
        sock.rx.append(nulltls.CERT + b"%d\n" % ident.id)

    def _message(self, sock, msg):
        st = sock.state
        lst = st["listener"]
        self.serial += 1
        parts = msg.request_line.split(b" ")
        method = parts[0]
        target = parts[1] if len(parts) >= 2 else b""
        entry = {"sid": sock.sid, "listener": (lst["host"], lst["port"]), "msg": msg, "tls": list(st["layers"]), "serial": self.serial, "method": method.decode("latin-1"), "target": target.decode("latin-1")}
        if st["need_tls"] and st["tunnel"] is None:
            self.violations.append(("plaintext-to-tls-port", sock.sid, lst["host"], lst["port"], msg.request_line))
        if st["tunnel"] is not None:
            host, port = st["tunnel"]
            scheme = "https" if st.get("tunnel_tls") else "http"
            entry.update(route="tunnel", origin=(scheme, hostkey(host), port))
        elif lst["kind"] == "proxy" and method == b"CONNECT":
            entry.update(route="connect", origin=None)
            self.log.append(entry)
            self._connect(sock, target.decode("latin-1"), entry)
            return
        elif lst["kind"] == "proxy":
            entry.update(route="forward", origin=_origin_of_absolute(target.decode("latin-1")))
        else:
            entry.update(route="direct", origin=(lst["scheme"], lst["host"], lst["port"]))
        idx = self.origin_requests
        self.origin_requests += 1
        fault = self.fault_plan.get(idx)
        if fault is not None:
            entry["faulted"] = fault
            self.log.append(entry)
            if fault == "reset":
                sock.rx.append(("exc", ConnectionResetError(errno.ECONNRESET, "Connection reset by peer")))
            elif fault == "busy":
                # a retryable status: the client is asked to come back at once
                self._respond(sock, entry, {"status": 503, "headers": [("Retry-After", "0")], "body_len": 8})
            else:
                sock.rx.append(fakenet.EOF)
            return
        self.log.append(entry)
        self.requests.append((sock.sid, msg))
        resp = self.handler(self, entry) or {"status": 200}
        self._respond(sock, entry, resp)

    def _connect(self, sock, target: str, entry):
        st = sock.state
        host, _, port = target.rpartition(":")
        try:
            tgt = (host, int(port))
        except ValueError:
            tgt = (target, None)
        entry["connect_target"] = tgt
        pol = self.connect_policy(self, sock, tgt, entry) or {"status": 200}
        if pol.get("o") == "garbage":
            sock.rx.append(b"\x00\x01 not http at all\r\n\r\n")
            sock.rx.append(fakenet.EOF)
            return
        if pol.get("o") == "eof":
            sock.rx.append(fakenet.EOF)
            return
        status = pol.get("status", 200)
        if status == 200:
            sock.rx.append(b"HTTP/1.1 200 Connection established\r\n" + b"".join(k.encode() + b": " + v.encode() + b"\r\n" for k, v in pol.get("headers", [])) + b"\r\n")
            st["tunnel"] = tgt
            st["tunnel_tls"] = False
        else:
            body = pol.get("body", b"denied")
            sock.rx.append(fakenet.response_bytes(status, [(k, v) for k, v in pol.get("headers", [])], body, "cl", pol.get("keep", False)))
            if not pol.get("keep", False):
                sock.rx.append(fakenet.EOF)

    def _respond(self, sock, entry, resp):
        status = resp.get("status", 200)
        method = entry["method"]
        body = resp.get("body")
        if body is None:
            body = fakenet.tag_body(entry["target"].encode("latin-1"), resp.get("body_len", 16), entry["serial"])
        entry["body"] = body
        hdrs = [(k, v) for k, v in resp.get("headers", [])]
        framing = resp.get("framing", "cl")
        keep = resp.get("keep", True)
        data = fakenet.response_bytes(status, hdrs, body, framing if not (method == "HEAD" and framing == "close") else "cl", keep)
        if method == "HEAD" or status in (204, 304) or 100 <= status < 200:
            data = data[: data.index(b"\r\n\r\n") + 4]
            entry["body"] = b""
        self.reply(sock, data, resp.get("seg"))
        if framing == "close" or not keep or resp.get("then") == "eof":
            sock.rx.append(fakenet.EOF)

    # ---- views
    def origin_log(self):
        return [e for e in self.log if e["route"] != "connect"]


def _is_ip(h: str) -> bool:
    import ipaddress

    try:
        ipaddress.ip_address(hostkey(h).split("%")[0])
        return True
    except ValueError:
        return False


def _origin_of_absolute(target: str):
    """(scheme, host, port) named by an absolute-form request target (independent minimal reader)."""
    scheme, sep, rest = target.partition("://")
    if not sep:
        return None
    auth = rest
    for d in "/?#":
        i = auth.find(d)
        if i >= 0:
            auth = auth[:i]
    if "@" in auth:
        auth = auth.rsplit("@", 1)[1]
    if auth.startswith("["):
        end = auth.find("]")
        host, rest2 = auth[1:end], auth[end + 1 :]
        port = rest2[1:] if rest2.startswith(":") else ""
    else:
        host, _, port = auth.partition(":")
    scheme = scheme.lower()
    try:
        p = int(port) if port else {"http": 80, "https": 443}.get(scheme)
    except ValueError:
        p = None
    return (scheme, host.lower(), p)
