#!/venv/bin/python
"""Hand-made sensitivity mutants: apply one textual mutation to a scratch copy of /repo/src
(never to /repo), run the property's check against it, record whether it was killed.

usage: tools/mutants.py [--tier quick] [--only ID[,ID]] [--prop Cxx]
Results are appended to SENSITIVITY.md by --write.
"""
import argparse, json, os, shutil, subprocess, sys, tempfile, time

HERE = os.path.dirname(os.path.dirname(os.path.abspath(__file__)))
sys.path.insert(0, HERE)
from tools.mutant_table import MUTANTS  # noqa: E402


def run_one(m, tier, scale):
    d = tempfile.mkdtemp(prefix="vmut.", dir="/tmp")
    try:
        shutil.copytree("/repo/src/urllib3", os.path.join(d, "src", "urllib3"), ignore=shutil.ignore_patterns("__pycache__"))
        for path, old, new in m["edits"]:
            p = os.path.join(d, "src", "urllib3", path)
            s = open(p).read()
            if s.count(old) < 1:
                return {"id": m["id"], "status": "STALE", "detail": f"pattern not found in {path}"}
            s = s.replace(old, new, 1) if not m.get("all") else s.replace(old, new)
            open(p, "w").write(s)
        env = dict(os.environ, VERIF_REPO_SRC=os.path.join(d, "src"), VERIF_SCALE=str(scale))
        t0 = time.time()
        res = {}
        for prop in m["props"]:
            pr = subprocess.run([os.path.join(HERE, "check"), prop, "--tier", tier, "--no-evidence"], env=env, capture_output=True, text=True)
            viol = [l for l in pr.stdout.splitlines() if l.startswith("VIOLATION")]
            first = ""
            lines = pr.stdout.splitlines()
            for i, l in enumerate(lines):
                if l.startswith("VIOLATION"):
                    first = " | ".join(x.strip() for x in lines[i + 1 : i + 3])[:300]
                    break
            res[prop] = {"rc": pr.returncode, "violations": len(viol), "first": first, "stderr": pr.stderr[-300:] if pr.returncode == 2 else ""}
        killed = any(r["rc"] == 1 for r in res.values())
        return {"id": m["id"], "status": "KILLED" if killed else ("ERROR" if any(r["rc"] == 2 for r in res.values()) else "SURVIVED"), "wall_s": round(time.time() - t0, 1), "res": res, "desc": m["desc"]}
    finally:
        shutil.rmtree(d, ignore_errors=True)
        shutil.rmtree(os.path.join(HERE, "replays"), ignore_errors=True)


def main():
    ap = argparse.ArgumentParser()
    ap.add_argument("--tier", default="quick")
    ap.add_argument("--only", default="")
    ap.add_argument("--prop", default="")
    ap.add_argument("--scale", type=float, default=1.0)
    ap.add_argument("--json", default="")
    a = ap.parse_args()
    sel = [m for m in MUTANTS if (not a.only or m["id"] in a.only.split(",")) and (not a.prop or a.prop in m["props"])]
    out = []
    for m in sel:
        r = run_one(m, a.tier, a.scale)
        out.append(r)
        print(json.dumps(r)[:700], flush=True)
    if a.json:
        json.dump(out, open(a.json, "w"), indent=1)
    print("killed", sum(r["status"] == "KILLED" for r in out), "of", len(out))


if __name__ == "__main__":
    main()
