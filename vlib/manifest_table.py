"""Source of truth for MANIFEST.json (run: python -m vlib.mkmanifest)."""

REPO_FIX_COMMITS = ["04f98b2", "9ce180e", "cfc2ed2", "1d8dc7e", "8ef3efb", "a7c5d9c", "2fb9873", "812fbc2", "343713a", "2036f84", "8402cd8", "1e36e27", "ed92c78", "c0485e3", "a0c4921", "9103dfd", "b4aac6a", "62476ec", "c69336e", "1162fd4", "6f75956"]

CHECKS = {
    "C09": {
        "technique": "bounded-exhaustive routing matrix (proxy scheme x destination scheme x forwarding flag x proxy/origin certificate state x proxy headers x destination host form x retries, all CONNECT reply sequences of length <= 2 over 200/403/407/502/garbage/EOF, server-closed tunnels between 2-3 requests, optional http->https redirect hop) + Hypothesis mixes, on the in-memory proxy/origin network with the null TLS layer; oracle: two observers (what the proxy parsed, what the origin parsed inside the tunnel) against the documented routing table",
        "text": "ProxyManager is driven through every cell; the proxy's and the origin's logs are checked for: CONNECT to exactly host:port before any https request unless forwarding was opted into on an https proxy, inner TLS asking for the destination name with verification on, origin-form inside the tunnel and absolute-form at the proxy, proxy headers present at the proxy and absent inside the tunnel (also after a redirect hop), no HTTP byte after a refused CONNECT or a failed proxy/origin verification together with ProxyError/SSLError, and a fresh CONNECT on a new socket after the server closed a pooled tunnel.",
        "note": "Trusts vlib/world.py and vlib/nulltls.py; certificate verification is emulated from identity flags (real TLS is C07). A proxy that answers CONNECT with garbage or EOF may surface as any urllib3 error.",
        "design_ref": "DESIGN.md section 4, C09",
    },
    "C10": {
        "technique": "exhaustive single-position splice of a hostile alphabet into a request template + Hypothesis-generated requests at three entry points on an in-memory socket; oracle: dichotomy (raised and zero bytes written | independent structural wire reader consumes the whole stream as exactly one request equal to the requested parts), RFC 9113 reference predicate for HTTP/2 header validity; plus coverage-guided atheris/libFuzzer campaigns whose target is Hypothesis' fuzz_one_input over the same strategy with the property's oracle inside",
        "text": "Every alphabet symbol is spliced at every position of method, URL parts, header names and values and generated mixes are sent through HTTPConnection.request, HTTPConnectionPool.urlopen (relative and absolute URL) and PoolManager.request; everything the sockets received is re-read by a structural parser written for this work and compared field by field with what was asked; HTTP2Connection.putheader is compared with an RFC 9113 validity predicate over exhaustive short names/values.",
        "note": "Trusts vlib/reqwire.py and vlib/fakenet.py. Target equality is metamorphic (percent-decoding equal, only RFC 3986 characters), not a re-implementation of the encoder.",
        "design_ref": "DESIGN.md section 4, C10",
    },
    "C11": {
        "technique": "bounded-exhaustive product body kind x size x method x chunked flag x caller framing x attempt history + Hypothesis mixes on an in-memory scripted server; oracle: independent de-framing of every attempt compared with reference body bytes, first attempt vs every re-send",
        "text": "Each case sends one body of one of 16 kinds through a pool or a PoolManager against a scripted sequence of resets, 503s, redirects and refusals; every attempt that reached the server is de-framed independently and its framing choice and payload are compared with the reference bytes of the body and with the first attempt.",
        "note": "Trusts vlib/reqwire.py, vlib/servers.py. Known finding KF-C11-oneshot is excluded by signature (one-shot body re-sent exactly empty) and counted.",
        "design_ref": "DESIGN.md section 4, C11",
    },
    "C12": {
        "technique": "Hypothesis-generated and bounded-exhaustive (payload, framing, coding stack, segmentation, read-call sequence + draining tail) cases over real http.client responses on an in-memory socket; oracle: round trip against the generator's own payload encoded by stdlib/zstandard compressors, size bounds per call; plus coverage-guided atheris/libFuzzer campaigns whose target is Hypothesis' fuzz_one_input over the same strategy with the property's oracle inside",
        "text": "Responses are built from a payload by independent encoders (zlib, gzip, zstandard, chunked framing) and delivered in generated segment sizes; generated sequences of read/read1/readinto/stream/read_chunked/iteration calls with an explicit decode_content are run and the concatenation, per-call size bounds, end-of-body behaviour, preloaded .data and tell() are compared with the payload.",
        "note": "Trusts vlib/respgen.py encoders and vlib/fakenet.py. Known finding KF-C12-mix (reader-family switch on chunked bodies) is excluded by construction and counted.",
        "design_ref": "DESIGN.md section 4, C12",
    },
    "C13": {
        "technique": "Hypothesis-generated responses (C12's generator) x bounded-exhaustive single mutations (every cut position, every chunk-size line, byte flips, consistent-framing truncation, conflicting Content-Length) x read patterns on an in-memory socket; three-valued oracle from framing arithmetic and zlib/zstandard run directly on the mutated content; second request on the same pool",
        "text": "For each generated response every truncation point of the body section and every listed corruption is served once per read pattern through the real http.client/urllib3 stack; where independent facts say the body is cut off or undecodable the drain must end in ProtocolError/IncompleteRead/DecodeError, where they say it is intact the exact bytes must come back, and for pool responses the broken connection must be closed and the next request served on another socket.",
        "note": "Trusts zlib and zstandard as judges (zstd verdict demanded only where one-shot and byte-wise feeding agree), vlib/respgen.py, vlib/fakenet.py. Cuts inside the terminating chunk line and truncated gzip/deflate without framing evidence are 'either'. Known finding KF-C13-decode-after-release is matched by signature and counted.",
        "design_ref": "DESIGN.md section 4, C13",
    },
    "C14": {
        "technique": "bounded-exhaustive string enumeration + Hypothesis grammar/unicode generation; oracles: totality, normal-form predicates, idempotence round-trip, differential against an independent RFC 3986 splitter, CPU-time scaling; plus coverage-guided atheris/libFuzzer campaigns whose target is Hypothesis' fuzz_one_input over the same strategy with the property's oracle inside",
        "text": "Every string up to length 5 (quick) / 6 (thorough) over a 13-symbol delimiter alphabet, bare and behind 'http://', plus tens of thousands of grammar-built hostile URLs and unicode strings, are parsed and compared with an independent reading; running time is measured on 26 repetition shapes up to 1e5 characters. Exploration: absence is shown only inside those bounds.",
        "note": "Trusts vlib/refurl.py (independent splitter), the idna package, CPython re; time clause uses CPU time with an absolute-and-relative threshold.",
        "design_ref": "DESIGN.md section 4, C14",
    },
    "C01": {
        "technique": "Hypothesis-generated histories (pool kind x maxsize x block x retries x preload/release mode, <= 6 scripted per-attempt outcomes from 24 fault/response kinds, 1-4 requests with a disposal each) + the bounded-exhaustive matrix single outcome x retries x release mode x disposal x pool kind, on an in-memory scripted server; oracle: invariants over the pool queue and the socket seam after the history and again after one clean request",
        "text": "Real HTTPConnectionPool / HTTPSConnectionPool / ProxyManager objects (forwarding and CONNECT tunnel, null TLS) are driven through scripted faults at connect, TLS, CONNECT, send (head/body) and receive, including injected BaseExceptions; after every response has been disposed the queue must hold exactly maxsize entries with no connection twice, every socket not idle in the pool must be closed, a blocking pool must never have had more than maxsize sockets open, every failure must be a urllib3 exception or the injected interrupt object itself, and a final clean request must succeed.",
        "note": "Trusts vlib/servers.py, vlib/fakenet.py, vlib/nulltls.py. Known finding KF-C01-close (close() on a response that owns its connection loses the slot) is matched by signature (0 < lost slots <= number of such close() calls) and counted.",
        "design_ref": "DESIGN.md section 4, C01",
    },
    "C02": {
        "technique": "schedule exploration with an owned scheduler (real threads, one baton; yield points = every line of the pool's checkout/return/close functions and every operation of the pool queue installed through QueueCls): every schedule with <= 1 preemption (2 on small configs; thorough 2/3, deeper trace set, opcode granularity) + Hypothesis-drawn random schedules, over configs maxsize x block x 2-3 threads x 1-2 requests x optional close() thread x one scripted fault x pool_timeout; oracle: online monitors (exclusive socket use, connection count, deadlock, own tagged body or documented error, ClosedPoolError only with close(), all sockets closed after the pool is dropped)",
        "text": "Real threads execute HTTPConnectionPool.urlopen / close on the in-memory network while the harness decides every context switch; each explored schedule is checked for two requests touching one socket at once, more than maxsize connections on a blocking pool, a state in which no thread can run, a request that does not receive the body tagged with its own target, internal errors (AttributeError, queue.Full/Empty, EmptyPoolError without exhaustion) and sockets that survive dropping the closed pool.",
        "note": "Trusts vlib/sched.py, vlib/fakenet.py, vlib/servers.py. Not decided: preemption inside a bytecode or C code, the OS scheduler, true liveness under unfair scheduling. Known finding KF-C02-closewait (a checkout that waits when close() runs is never woken) is matched by signature: the thread parked on a swapped-out queue, or while the pool was legitimately exhausted.",
        "design_ref": "DESIGN.md section 4, C02",
    },
    "C03": {
        "technique": "Hypothesis-generated histories of 2-4 requests (server framing / keep-alive / stray bytes / surplus body / interim 100 / early EOF / segmentation x caller disposal) + the exhaustive 2-request product, on an in-memory scripted server whose every body is tagged with the request it answers; oracle: ownership of each delivered byte (prefix of a body sent for that very request) and no response from a connection that had bytes or EOF pending when the request arrived",
        "text": "Requests with unique targets are sent over one pooled keep-alive connection set while earlier responses are read fully, partially and released, released unread, drained, closed, streamed or ignored; the server tags every body with target and serial number and poisons stray bytes, so every byte handed to the caller is attributed to a request and must belong to the caller's own; bodies read to the end without an error must be complete.",
        "note": "Trusts vlib/servers.py tagging and vlib/fakenet.py; http.client's real buffered reader is in the loop. A surplus body on a 204/304 response that the server itself frames with chunked coding belongs to that request (delivering it is not a cross-request leak).",
        "design_ref": "DESIGN.md section 4, C03",
    },
    "C04": {
        "technique": "bounded-exhaustive (budget grid x method class x pool kind x every outcome sequence of length <= 2 quick / <= 3 thorough) + Hypothesis-generated policies and scripts (<= 5 outcomes) against a scripted in-memory server with a virtual clock; oracle: counting invariants over the attempts the server saw, classified by ground-truth fault category, plus the recorded sleeps and how the call ended",
        "text": "The real HTTPConnectionPool / ProxyManager is driven through scripted sequences of connect errors, read errors, TLS record errors and retryable statuses; the attempts observed at the server are counted against total and the per-category budgets, re-sends of non-idempotent methods after read errors or statuses are flagged, every time.sleep of the retry module is bounded by backoff_max or the Retry-After just received, the caller's Retry object is snapshot-compared, and the final exception/response is compared with the last cause; an ample-budget liveness clause guards against a vacuous never-retry.",
        "note": "Trusts vlib/servers.py ScriptServer and the ground-truth category table in props/c04.py. CONNECT tunnels are exercised in C09; known finding KF-C04-proxy (reset/EOF at the status line behind a proxy is classified 'other') is matched by signature and counted.",
        "design_ref": "DESIGN.md section 4, C04",
    },
    "C05": {
        "technique": "bounded-exhaustive redirect chains (length <= 2 quick / <= 3 thorough x 5 status codes x 3 origins x 18 policy values x placement x entry point) + Hypothesis-generated graphs with loops (<= 6 hops) on an in-memory multi-origin network with proxy and null-TLS; oracle: the graph is the reference walk (Location values are built from the intended next node), compared with what every origin's server received",
        "text": "Each case sends one request through PoolManager, ProxyManager (forwarding and CONNECT tunnel) or a bare pool into a generated redirect graph; the sequence of (origin, method, target, body, content headers) seen by the servers must be a prefix of the graph walk no longer than 1 + the budget of the policy in effect (request value, else pool/manager value, else default), 303 must turn into a body-less GET without content headers, other codes keep method and body, every Location form must resolve to the intended node, and the ending must be the 200, MaxRetryError or the last 3xx as raise_on_redirect says.",
        "note": "Trusts vlib/world.py, vlib/nulltls.py (routing only), vlib/redirects.py. The budget of a policy value is read from the documentation (props/c05.py effective/policy_budget).",
        "design_ref": "DESIGN.md section 4, C05",
    },
    "C06": {
        "technique": "bounded-exhaustive (6 chain shapes x 3 kinds of origin difference x 5 codes x header sets x 5 container modes x entry x casings) + Hypothesis-generated chains, header casings, repeated fields and remove_headers_on_redirect sets on the in-memory multi-origin network; oracle: invariant over the per-origin wire log (no policy-named header from the first cross-origin hop on; all other headers preserved; caller objects unchanged; bare pool raises HostChangedError)",
        "text": "Sensitive headers in generated letter casings are carried as dict, HTTPHeaderDict with repeated fields, manager defaults or request-over-manager headers through redirect chains whose hops change host, port or scheme (or only case / explicit default port); every request each origin's server received is inspected for leaked names and for the preservation of all other headers.",
        "note": "Trusts vlib/world.py, vlib/redirects.py. Over-stripping on same-origin hops is allowed (only leaks are violations).",
        "design_ref": "DESIGN.md section 4, C06",
    },
    "C07": {
        "technique": "lattice enumeration with real TLS handshakes (trustme certificates over socket.socketpair() against an in-process server thread, stdlib ssl and pyOpenSSL backends, direct, http-proxy CONNECT tunnel and https-proxy tunnel with real TLS in TLS): quick = every 3-axis interaction that involves a security axis (about 5 900 cells) + Hypothesis-sampled cells, thorough = the full pruned lattice (about 635 000 cells); oracle: reference decision table of the checks the settings demand (chain / pin / hostname via C08's independent matcher), compared with whether the server received any application byte, the error raised, socket closure, is_verified and InsecureRequestWarning",
        "text": "Each cell configures HTTPSConnectionPool or ProxyManager with one combination of cert_reqs, CA source, assert_hostname, assert_fingerprint, server_hostname and caller-supplied context, connects to a server whose certificate has a chosen issuer and name shape under a chosen spelling of the host, and asserts: no application byte reaches the server unless every demanded check passes; a failed check surfaces as SSLError with the client socket closed; when everything passes the request succeeds; is_verified and InsecureRequestWarning follow (cert_reqs REQUIRED or pinned fingerprint).",
        "note": "Trusts OpenSSL (through ssl and pyOpenSSL), trustme, vlib/refname.py. The https-proxy path (stdlib backend only; pyOpenSSL has no wrap_bio) adds the proxy certificate axis ok / untrusted / wrong name; urllib3 applies the destination's cert_reqs to the proxy leg too, so cert_reqs=NONE with the default proxy context is a configuration error of the ssl module there. Liveness is not asserted for ca_cert_data alone under pyOpenSSL (the installed pyOpenSSL rejects the context's first load call; fails closed).",
        "design_ref": "DESIGN.md section 4, C07",
    },
    "C08": {
        "technique": "bounded-exhaustive (SAN name, host) pair enumeration + Hypothesis SAN lists / IP spellings / pin mutations; oracle: independent three-valued RFC 6125 reference (strict subset, liberal superset) and hashlib digest comparison",
        "text": "All pairs of names with <= 2 labels (quick) / <= 3 labels (thorough, 2.1e6 pairs x case variants) over the 11-label alphabet, generated SAN lists with IP and commonName variants, and tens of thousands of pins derived from true digests are decided against a reference that is independent of urllib3's matcher; both directions (must-accept, must-reject) are asserted.",
        "note": "Trusts vlib/refname.py, stdlib ipaddress and hashlib. Partial wildcards and certificates with a malformed multi-wildcard entry ahead of the matching entry are 'either'.",
        "design_ref": "DESIGN.md section 4, C08",
    },
    "C15": {
        "technique": "bounded-exhaustive (14 hosts x 7 ports x 4 scheme spellings x routing, and 16 paths x 9 queries x 5 fragments x 5 userinfos) + Hypothesis-composed URLs, each paired with an equivalent spelling, on the in-memory network (direct, forwarding proxy, CONNECT tunnel, null TLS); oracle: independent RFC 3986 reading of the URL string compared with the address dialled, CONNECT line, TLS server name, Host header (strict grammar) and request target (metamorphic decoding relation); equivalent URLs must reach the same pool/connection with identical bytes",
        "text": "Every generated URL and an equivalent spelling of it (scheme/host case flipped, explicit default port toggled) is requested through PoolManager and ProxyManager; what the socket layer was asked to dial, what the proxy parsed as CONNECT, the server name in the TLS marker handshake, the Host header and the request target are compared with the reference reading of the URL; fragments and userinfo must never reach the wire.",
        "note": "Trusts vlib/refurl.py, the idna package, vlib/world.py, vlib/nulltls.py. Known findings KF-C15-tunnelv6 (doubled brackets in Host inside a tunnel) and KF-C15-fwd-default-port are matched by signature and counted.",
        "design_ref": "DESIGN.md section 4, C15",
    },
    "C16": {
        "technique": "model-based testing: exhaustive operation sequences (<=3 quick, <=4 thorough over a 41-op alphabet) + Hypothesis-generated sequences (<=30 ops, all source types) against a reference multimap, full observation of every live dict after every step",
        "text": "Every short mutation sequence and many long random ones are run on real HTTPHeaderDict objects and on a small reference multimap; after each step each live dict (including copies/unions taken earlier) is compared through lookup under several casings, iteration orders, getlist, len, membership, equality and repr round trip.",
        "note": "Trusts the reference multimap in props/c16.py; sources with case-colliding keys are only given to add-based entry points (documented undefined otherwise).",
        "design_ref": "DESIGN.md section 4, C16",
    },
    "C17": {
        "technique": "model-based testing against a reference LRU: exhaustive operation sequences (length <= 5 quick / 6 thorough over 19 operations, maxsize 0..3) + Hypothesis sequences; owned-scheduler exploration (every schedule with <= 2 / 3 preemptions at line granularity inside the container methods, plus Hypothesis-drawn random schedules) with a brute-force linearizability check; Hypothesis-generated PoolManager histories on the in-memory network with responses held across evictions, and scheduled connection_from_url races",
        "text": "The real RecentlyUsedContainer (recording dispose callback, instrumented lock) is compared with a reference LRU after every step of every short operation sequence; 2-3 real threads run container operations under a scheduler that owns every context switch, and each explored history must be explained by some sequential order of the reference with dispose exactly once and never under the caller's lock; PoolManager histories check the bound, the LRU victim, pool identity for equal keys (also racing), that in-flight responses of evicted or cleared pools finish with the right tagged body, that their sockets are closed once nothing references them, and that cached pools are never closed.",
        "note": "Trusts the reference LRU in props/c17.py, vlib/sched.py (preemption at line events and lock operations; not inside a bytecode or C code), vlib/fakenet.py.",
        "design_ref": "DESIGN.md section 4, C17",
    },
    "C18": {
        "technique": "exhaustive enumeration over the keyword universe derived at run time with inspect.signature (every keyword x 2 values x 2 schemes x 3 supply paths x 3 entry points; thorough: every ordered keyword pair) + Hypothesis-drawn base contexts; oracle: pool identity relation (one differing keyword => distinct pools or rejection; none => identical pool, also under case / default-port spellings), socket-level reuse check on the in-memory network, deep snapshots of manager defaults and caller dicts",
        "text": "For every keyword any pool or connection constructor accepts, two request contexts that differ in exactly that keyword are resolved through connection_from_url / _host / _context, as manager default versus pool_kwargs and as two pool_kwargs; they must yield different pool objects or be rejected, equal contexts must yield the identical object, an unknown keyword must be rejected, a request under the second context must open its own socket, and connection_pool_kw, headers and the caller's dicts must be unchanged afterwards.",
        "note": "Trusts the two-values table in props/c18.py (fallback: two strings for keywords added later) and vlib/fakenet.py for the reuse clause.",
        "design_ref": "DESIGN.md section 4, C18",
    },
    "C19": {
        "technique": "exhaustive enumeration of the (total,connect,read) x placement x connect-duration x history x server-behaviour grid on an in-memory socket with a virtual clock; oracle: independently computed min() arithmetic on what the socket was told; Hypothesis floats for bound/monotonicity relations",
        "text": "The whole valid grid named in the property (125 value triples x 5 placements x 7 connect durations x fresh/reused/second request x answering/silent server) is executed through the real pool/connection/http.client stack; the timeout passed to connect and the one in force when the response wait starts are read off the fake socket and compared with the reference; invalid values are tried at every entry point.",
        "note": "Trusts vlib/fakenet.py (socket shim + virtual clock). Decides the values handed to the socket, not the kernel honouring them.",
        "design_ref": "DESIGN.md section 4, C19",
    },
    "C20": {
        "technique": "exhaustive hostile names/filenames (<=2 / <=3 symbols) in every input form + Hypothesis field lists; oracle: strict independent multipart parser and independently computed WHATWG escaping, byte-exact part headers and data; plus coverage-guided atheris/libFuzzer campaigns whose target is Hypothesis' fuzz_one_input over the same strategy with the property's oracle inside",
        "text": "Encoded bodies are parsed by a strict RFC 7578 parser using the boundary named in the returned content type; part count, order, the exact Content-Disposition/Content-Type/extra header lines and the data bytes are compared with what the field list specifies.",
        "note": "Trusts vlib/wire.py parse_multipart and stdlib mimetypes; names/values are UTF-8 encodable; data never contains the boundary (by construction).",
        "design_ref": "DESIGN.md section 4, C20",
    },
}

_PENDING = "check not built yet in this revision (planned in DESIGN.md section 4); not claimed until it is"
NOT_APPLICABLE = {f"C{i:02d}": _PENDING for i in range(1, 21) if f"C{i:02d}" not in CHECKS}
