"""Regenerates MANIFEST.json from the table below (python -m vlib.mkmanifest)."""
import json, os

HERE = os.path.dirname(os.path.dirname(os.path.abspath(__file__)))

# id -> (technique, level text, level note, design ref)
CHECKS = {}
NOT_YET = {}


def load():
    from vlib import manifest_table as t
    return t.CHECKS, t.NOT_APPLICABLE, t.REPO_FIX_COMMITS


def main():
    checks, na, fixes = load()
    m = {
        "version": 1,
        "setup_cmd": "./setup.sh",
        "hooks": {
            "guard": "URLLIB3_VERIF",
            "enable": "no source hooks: every seam (create_connection, wait_for_socket, time, ssl_context, QueueCls, RLock) is replaced from the harness; ./check sets URLLIB3_VERIF=1 for form only",
            "baseline_off_cmd": "cd /repo && timeout 900 /venv/bin/python -m pytest -ra -q -p no:cacheprovider --timeout=900 --continue-on-collection-errors --junitxml=/tmp/urllib3-baseline.junit.xml",
            "source_commits": [],
            "add_only": True,
        },
        "engines": [
            {"name": "check", "path": "check", "serves_properties": sorted(checks), "kind_free_text": "Hypothesis-generated and bounded-exhaustive cases against explicit oracles; vlib/runner.py shards, buckets, shrinks, writes replay + evidence"}
        ],
        "checks": [],
        "notes": "Repairs of genuine defects are unguarded 'fix:' commits in /repo: " + ", ".join(fixes) + ". See known_findings.json and DESIGN.md section 5.",
        "not_applicable": [{"property_id": k, "reason": v} for k, v in sorted(na.items())],
    }
    for pid in sorted(checks):
        c = checks[pid]
        m["checks"].append(
            {
                "property_id": pid,
                "quick_cmd": f"./check {pid} --tier quick",
                "thorough_cmd": f"./check {pid} --tier thorough",
                "evidence_file": f"evidence/{pid}.json",
                "replay_cmd_template": f"./check {pid} --replay {{path}}",
                "engine": "check",
                "level_claimed": {"category": "exploration", "text": c["text"], "design_ref": c["design_ref"]},
                "level_note": c["note"],
                "technique": c["technique"],
            }
        )
    with open(os.path.join(HERE, "MANIFEST.json"), "w") as fh:
        json.dump(m, fh, indent=1)
    print("MANIFEST.json:", len(m["checks"]), "checks,", len(m["not_applicable"]), "not_applicable")


if __name__ == "__main__":
    main()
