"""C15 - what goes on the wire is exactly what the URL says."""
from __future__ import annotations

import itertools
import os
import re

from vlib import core, fakenet, nulltls, refurl, world
from vlib.core import Failure

PROP = "C15"
RULE = (
    "a case is an http/https URL built from (scheme spelling, optional userinfo, host from {names, upper-case, trailing dot, "
    "IDN, A-label, IPv4, [IPv6], [IPv6%25zone]}, port {absent, explicit default, odd, leading zeros}, path with dot segments / "
    "escapes / spaces / non-ASCII / backslash, query, fragment) sent with PoolManager directly, through a forwarding proxy, and "
    "through a CONNECT tunnel (http and https proxies), optionally reached through a redirect, optionally after the same manager (with manager-level headers or a header mapping the caller reuses - plain dict or HTTPHeaderDict -, or proxy_headers and an earlier CONNECT tunnel) has served another origin, each together with an EQUIVALENT spelling (scheme/host letter case flipped, explicit default "
    "port added or removed). The URL string is read by the independent RFC 3986 splitter (vlib/refurl.py) and compared with "
    "what the socket layer and the servers saw: address dialled, CONNECT line, TLS server name, Host header (strict "
    "grammar), request target. Non-trivial = host is IPv6 / IDN / has a trailing dot or zone, or the URL has userinfo / a "
    "fragment / an empty path with a query / an explicit default port."
)
ASSUMPTIONS = [
    "vlib/refurl.py is the independent reading of the URL; IDN hosts are mapped with the idna package directly",
    "vlib/world.py + vlib/nulltls.py: the TLS server name is what the client put into the handshake marker",
    "target equality is metamorphic: only RFC 3986 path/query characters and valid escapes, and percent-decoding it equals percent-decoding the dot-segment-free path?query of the URL",
    "segments that are percent-encoded dots (%2e) are not generated (RFC 3986 lets normalisers differ on them)",
]
EXHAUSTIVE = {"quick": False, "thorough": False}

SCHEMES = ["http", "https", "HTTP", "hTTps"]
USERINFO = [None, "user:pw", "u", "a%40b:c", "x:y@z"]
HOSTS = ["example.com", "EXAMPLE.Com", "a.b.", "xn--bcher-kva.example", "bücher.example", "例え.jp", "localhost", "1.2.3.4", "[::1]", "[2001:DB8::A]", "[fe80::1%25eth0]", "[::ffff:1.2.3.4]", "a-b.c_d.test", "UPPER.TEST."]
PORTS = [None, "default", "8080", "0080", "8443", "65535", "1"]
PATHS = ["", "/", "//x//y", "/.//x", "/a/..//x", "/a/b", "/a/./b/../c", "/../x", "/a b", "/%41%2fz", "/été", "/a//b/", "/a;p=1", "/a\\b", "/%zz", "/.", "/a/..", "/~u/+x", "/a%20b/%C3%A9"]
QUERIES = [None, "", "q=1&r=2", "a b", "x=%26y", "é", "a#b".split("#")[0], "q=a/b?c", "%zz"]
FRAGS = [None, "", "frag", "f/g?h", "a b"]
ROUTES = ["direct", "forward", "tunnel", "forward-tls", "tunnel-tls"]

HOST_HDR_RE = re.compile(r"^(\[[0-9A-Fa-f:.]+(%(25)?[A-Za-z0-9._~-]+)?\]|[A-Za-z0-9._~!$&'()*+,;=%-]+)(:[0-9]+)?$")
TARGET_OK = refurl.QUERY_OK


PRIORS = (None, "mgr-headers", "shared-dict", "proxy-headers-tunnel", "mgr-headers-hd", "shared-hd")


def _scale(n):
    return max(1, int(n * float(os.environ.get("VERIF_SCALE", "1"))))


def build_url(c):
    s = c["scheme"] + "://"
    if c.get("userinfo") is not None:
        s += c["userinfo"] + "@"
    s += c["host"]
    port = c.get("port")
    if port == "default":
        port = "80" if c["scheme"].lower() == "http" else "443"
    if port is not None:
        s += ":" + port
    s += c.get("path", "")
    if c.get("query") is not None:
        s += "?" + c["query"]
    if c.get("fragment") is not None:
        s += "#" + c["fragment"]
    return s


def variant(c):
    """An equivalent spelling: letter case of scheme and host flipped, explicit default port toggled."""
    v = dict(c)
    v["scheme"] = c["scheme"].swapcase()
    if not any(ord(ch) > 127 for ch in c["host"]):
        v["host"] = c["host"].swapcase() if "%25" not in c["host"] else c["host"].split("%25")[0].swapcase() + "%25" + c["host"].split("%25")[1]
    if c.get("port") is None:
        v["port"] = "default"
    elif c.get("port") == "default":
        v["port"] = None
    return v


def expectations(url: str):
    """Independent reading of the URL -> what must appear at the seams."""
    import idna

    r = refurl.split(url)
    scheme = (r.scheme or "").lower()
    default = {"http": 80, "https": 443}[scheme]
    raw = r.host
    zone = None
    if raw.startswith("["):
        inner = raw[1:-1]
        if "%25" in inner:
            inner, zone = inner.split("%25", 1)
        elif "%" in inner:
            inner, zone = inner.split("%", 1)
        addr = inner.lower()
        dial = addr + ("%" + zone if zone else "")
        sni = addr
        hdr_hosts = {"[" + addr + "]", "[" + addr + "%" + (zone or "") + "]", "[" + addr + "%25" + (zone or "") + "]"} if zone else {"[" + addr + "]"}
        is_v6 = True
    else:
        name = raw.lower()
        if any(ord(ch) > 127 for ch in name):
            name = ".".join(idna.encode(lab).decode("ascii") if lab else "" for lab in name.split("."))
        dial = name
        sni = name[:-1] if name.endswith(".") else name
        hdr_hosts = {sni, name}  # the same host with or without the root dot
        is_v6 = False
    port = int(r.port) if r.port not in (None, "") else default
    path = refurl.remove_dot_segments(r.path) or "/"
    return {"scheme": scheme, "dial": (dial, port), "sni": sni, "hdr_hosts": hdr_hosts, "port": port, "default_port": default, "path": path, "query": r.query, "is_v6": is_v6, "zone": zone,
            "userinfo": r.userinfo, "fragment": r.fragment}


def _check_target(t: str, exp, fails, sig, brief, absolute_prefix=None):
    if absolute_prefix is not None:
        low = t.lower()
        ok_prefixes = [p for p in absolute_prefix if low.startswith(p.lower())]
        if not ok_prefixes:
            fails.append(Failure("target", {**sig, "what": "absolute-form-origin"}, f"absolute-form target {t!r} does not start with one of {sorted(absolute_prefix)}: {brief()}"))
            return
        t = t[len(max(ok_prefixes, key=len)) :]
        if t == "" or t.startswith("?"):
            t = "/" + t  # absolute-form may have an empty path (RFC 9112 3.2.2)
    if "#" in t:
        fails.append(Failure("target", {**sig, "what": "fragment"}, f"request target {t!r} contains the fragment: {brief()}"))
    if "@" in t.split("?")[0].split("/")[0]:
        fails.append(Failure("target", {**sig, "what": "userinfo"}, f"request target {t!r} carries userinfo: {brief()}"))
    if not t.startswith("/"):
        fails.append(Failure("target", {**sig, "what": "not-origin-form"}, f"request target {t!r} does not start with '/': {brief()}"))
        return
    p, sep, q = t.partition("?")
    if not refurl.only_chars_and_upper_escapes(p, refurl.PATH_OK) or (sep and not refurl.only_chars_and_upper_escapes(q, refurl.QUERY_OK)):
        fails.append(Failure("target", {**sig, "what": "illegal-characters"}, f"request target {t!r} has characters outside RFC 3986 path/query or a malformed escape: {brief()}"))
        return
    if refurl.pct_decode_bytes(p) != refurl.literal_or_decoded(exp["path"]):
        fails.append(Failure("target", {**sig, "what": "path"}, f"request target path {p!r} does not mean {exp['path']!r}: {brief()}"))
    want_q = exp["query"]
    if (want_q is None) != (not sep) and not (want_q == "" and not sep):
        fails.append(Failure("target", {**sig, "what": "query-presence"}, f"request target {t!r}, URL query is {want_q!r}: {brief()}"))
    elif sep and want_q is not None and refurl.pct_decode_bytes(q) != refurl.literal_or_decoded(want_q):
        fails.append(Failure("target", {**sig, "what": "query"}, f"request target query {q!r} does not mean {want_q!r}: {brief()}"))


def run_one(url: str, route: str, w, net, pm, exp, fails, sig, brief, via_redirect=False, headers=None, rpol="default"):
    import urllib3

    hkw = {} if headers is None else {"headers": headers}
    # the retry policy under which the redirect is followed: default header-stripping set | empty set | a plain int
    rpolicy = {"default": urllib3.Retry(total=3, redirect=2), "rm-empty": urllib3.Retry(total=3, redirect=2, remove_headers_on_redirect=[]), "int": 3}[rpol]

    n_log, n_dials = len(w.log), len(net.dials)
    err = None
    try:
        if via_redirect:
            # the URL under test is reached through a redirect from http://start.test/ (same checks on the second request)
            w.redirect_to = url
            r = pm.request("GET", "http://start.test/redir", retries=rpolicy, redirect=True, **hkw)
        else:
            r = pm.request("GET", url, retries=False, redirect=False, **hkw)
        r.data
    except BaseException as e:  # noqa: BLE001
        if type(e).__name__ == "CaseTimeout":
            raise
        err = e
    entries = w.log[n_log:]
    dials = net.dials[n_dials:]
    if via_redirect:
        # drop everything that belongs to the first hop
        k = next((i for i, e in enumerate(entries) if e["route"] != "connect" and "/redir" in e["target"]), None)
        if k is not None:
            first_sid = entries[k]["sid"]
            entries = entries[k + 1 :]
            dials = dials[1:] if dials and (str(dials[0][0]).lower() in ("start.test", "proxy.test", "sproxy.test")) and not any(e["sid"] == first_sid for e in entries) else ([] if not entries or any(e["sid"] == first_sid for e in entries) else dials)
    if err is not None:
        fails.append(Failure("call-failed", {**sig, "exc": type(err).__name__}, f"{type(err).__name__}: {err}: {brief()} dials={dials} refused={w.refused}"))
        return None
    reqs = [e for e in entries if e["route"] != "connect"]
    conns = [e for e in entries if e["route"] == "connect"]
    if len(reqs) != 1:
        fails.append(Failure("wire", {**sig, "what": "request-count"}, f"{len(reqs)} requests reached a server: {brief()}"))
        return None
    e = reqs[0]
    proxy_addr = ("sproxy.test", 3129) if route.endswith("-tls") else ("proxy.test", 3128)
    tls_proxy = route.endswith("-tls")
    route = route[:-4] if tls_proxy else route
    # ---- who was dialled
    want_dial = exp["dial"] if route == "direct" else proxy_addr
    for d in dials:
        if (str(d[0]).lower(), d[1]) != (want_dial[0].lower(), want_dial[1]):
            fails.append(Failure("dial", {**sig, "v6": exp["is_v6"], "zone": bool(exp["zone"])}, f"connected to {d[:2]}, the URL says {want_dial}: {brief()}"))
    if e["route"] != route:
        fails.append(Failure("route", {**sig, "got": e["route"]}, f"request arrived via {e['route']}: {brief()}"))
        return e
    # ---- CONNECT line
    if route == "tunnel":
        if len(conns) > 1:
            fails.append(Failure("connect-line", {**sig, "what": "count"}, f"{len(conns)} CONNECT requests: {brief()}"))
        for c in conns:
            host_for_connect = ("[" + exp["dial"][0] + "]") if exp["is_v6"] else exp["dial"][0]
            want = {f"{host_for_connect}:{exp['port']}".lower()}
            if exp["zone"]:
                want |= {f"[{exp['sni']}%25{exp['zone']}]:{exp['port']}".lower(), f"[{exp['sni']}]:{exp['port']}".lower()}
            if c["target"].lower() not in want:
                fails.append(Failure("connect-line", {**sig, "what": "target", "v6": exp["is_v6"]}, f"CONNECT {c['target']!r}, expected one of {sorted(want)}: {brief()}"))
            ch = [h.decode("latin-1") for h in c["msg"].get("host")]
            if len(ch) > 1 or (ch and ch[0].lower() not in want and ch[0].lower() not in {x.rsplit(":", 1)[0] for x in want}):
                fails.append(Failure("connect-line", {**sig, "what": "host-header", "v6": exp["is_v6"]}, f"CONNECT {c['target']!r} carries Host: {ch}: {brief()}"))
    # ---- TLS server name
    if exp["scheme"] == "https" and route != "forward":
        layers = [l for l in e["tls"] if l["role"] in ("origin", "origin-in-tunnel")]
        if len(layers) != 1:
            fails.append(Failure("sni", {**sig, "what": "no-tls-layer"}, f"TLS layers towards the origin: {e['tls']}: {brief()}"))
        elif (layers[0]["sni"] or "").lower() != exp["sni"]:
            fails.append(Failure("sni", {**sig, "v6": exp["is_v6"], "zone": bool(exp["zone"]), "dot": exp["dial"][0].endswith(".")}, f"TLS server name {layers[0]['sni']!r}, expected {exp['sni']!r}: {brief()}"))
    elif any(l["role"] != "proxy" for l in e["tls"]):
        fails.append(Failure("sni", {**sig, "what": "tls-on-http"}, f"TLS towards the origin of an http URL: {brief()}"))
    # ---- Host header
    hosts = e["msg"].get("host")
    if len(hosts) != 1:
        fails.append(Failure("host-header", {**sig, "what": "count"}, f"{len(hosts)} Host headers {hosts}: {brief()}"))
    else:
        hv = hosts[0].decode("latin-1")
        doubled = hv.startswith("[[")
        m = HOST_HDR_RE.match(hv)
        if not m:
            fails.append(Failure("host-header", {**sig, "what": "grammar", "route": route, "v6": exp["is_v6"], "doubled_brackets": doubled}, f"Host: {hv!r} is not host[:port]: {brief()}"))
        else:
            hh, hp = m.group(1), m.group(4)
            if hh.lower() not in {x.lower() for x in exp["hdr_hosts"]}:
                fails.append(Failure("host-header", {**sig, "what": "host", "v6": exp["is_v6"], "dot": exp["dial"][0].endswith(".")}, f"Host: {hv!r} names {hh!r}, the URL's host is {sorted(exp['hdr_hosts'])}: {brief()}"))
            want_port = None if exp["port"] == exp["default_port"] else str(exp["port"])
            if (hp[1:] if hp else None) not in ((want_port,) if want_port else (None, str(exp["default_port"]))):
                fails.append(Failure("host-header", {**sig, "what": "port"}, f"Host: {hv!r}, the URL's port is {exp['port']} (default {exp['default_port']}): {brief()}"))
    # ---- request target
    if route == "forward":
        hostforms = exp["hdr_hosts"]
        prefixes = set()
        for h in hostforms:
            prefixes.add(f"{exp['scheme']}://{h}" + ("" if exp["port"] == exp["default_port"] else f":{exp['port']}"))
            prefixes.add(f"{exp['scheme']}://{h}:{exp['port']}")
        _check_target(e["target"], exp, fails, sig, brief, absolute_prefix=prefixes)
    else:
        _check_target(e["target"], exp, fails, sig, brief)
    return e


def run_case(case) -> list[Failure]:
    import urllib3

    if case.get("kind") != "url" or case.get("route") not in ROUTES or not isinstance(case.get("via_redirect", False), bool) or case.get("prior") not in PRIORS or case.get("rpol", "default") not in ("default", "rm-empty", "int"):
        raise core.InvalidCase
    c = case["c"]
    if not isinstance(c, dict) or c.get("scheme") not in SCHEMES + [s.swapcase() for s in SCHEMES] or not isinstance(c.get("host"), str) or not c["host"]:
        raise core.InvalidCase
    if c.get("port") not in PORTS or any(not (isinstance(c.get(k), str) or c.get(k) is None) for k in ("userinfo", "query", "fragment")) or not isinstance(c.get("path", ""), str):
        raise core.InvalidCase
    if c.get("path") and not c["path"].startswith("/"):
        raise core.InvalidCase
    if c["host"] not in HOSTS and c["host"] not in [variant({"scheme": "http", "host": h})["host"] for h in HOSTS]:
        raise core.InvalidCase
    if any(ch in (c.get("userinfo") or "") for ch in "/?#\\ ") or "#" in (c.get("query") or "") or any(ch in c.get("path", "") for ch in "?#") or "%2e" in c.get("path", "").lower():
        raise core.InvalidCase
    route = case["route"]
    scheme = c["scheme"].lower()
    if route.startswith("tunnel") and scheme != "https":
        raise core.InvalidCase
    if route.startswith("forward") and scheme != "http":
        raise core.InvalidCase
    url = build_url(c)
    v = variant(c)
    url2 = build_url(v)
    exp = expectations(url)
    exp2 = expectations(url2)
    fails: list[Failure] = []
    sig = {"route": route}
    nulltls.reset()
    def handler(wd, entry):
        if "/redir" in entry["target"] and getattr(wd, "redirect_to", None):
            return {"status": 302, "headers": [("Location", wd.redirect_to)], "body_len": 2}
        return {"status": 200}

    w = world.World(handler=handler)
    w.add_origin("http", "start.test", 80)
    ident = nulltls.Identity([("IP Address" if exp["is_v6"] or re.fullmatch(r"[0-9.]+", exp["sni"]) else "DNS", exp["sni"])], label="origin") if scheme == "https" else None
    w.add_origin(scheme, exp["dial"][0], exp["dial"][1], identity=ident)
    w.add_origin("https", "prior.test", 443, identity=nulltls.Identity([("DNS", "prior.test")], label="prior"))
    w.add_proxy("http", "proxy.test", 3128)
    w.add_proxy("https", "sproxy.test", 3129)
    ctx = nulltls.NullTLSContext("c15")
    pctx = nulltls.NullTLSContext("c15-proxy")

    def brief():
        return f"url={url!r} variant={url2!r} route={route}"

    if (exp2["dial"], exp2["sni"], exp2["port"], exp2["path"], exp2["query"]) != (exp["dial"], exp["sni"], exp["port"], exp["path"], exp["query"]):
        raise core.HarnessError(f"variant is not equivalent under the reference reading: {url!r} vs {url2!r}")
    prior = case.get("prior")
    from urllib3._collections import HTTPHeaderDict

    shared = {"X-App": "verif"} if prior == "shared-dict" else (HTTPHeaderDict({"X-App": "verif"}) if prior == "shared-hd" else None)
    mkw = {"headers": {"X-App": "verif"}} if prior == "mgr-headers" else ({"headers": HTTPHeaderDict({"X-App": "verif"})} if prior == "mgr-headers-hd" else {})
    if prior == "proxy-headers-tunnel":
        if route == "direct":
            raise core.InvalidCase
        mkw = {"proxy_headers": {"Proxy-Authorization": "Basic dmVyaWY6eA=="}}  # one dict shared by the manager and all its pools
    with fakenet.Net(w) as net:
        if route == "direct":
            pm = urllib3.PoolManager(ssl_context=ctx, **mkw)
        elif route.endswith("-tls"):
            pm = urllib3.ProxyManager("https://sproxy.test:3129", ssl_context=ctx, proxy_ssl_context=pctx, **mkw)
        else:
            pm = urllib3.ProxyManager("http://proxy.test:3128", ssl_context=ctx, **mkw)
        try:
            if prior is not None:
                # the same manager (and the same header mapping) served a request to ANOTHER origin just before
                sig = {**sig, "prior": prior}
                try:
                    # (with proxy headers: the earlier request went through a CONNECT tunnel to another https origin)
                    pm.request("GET", "https://prior.test/first" if prior == "proxy-headers-tunnel" else "http://start.test/first", retries=False, redirect=False, **({} if shared is None else {"headers": shared})).data
                except Exception as ex:  # noqa: BLE001
                    raise core.HarnessError(f"the plain prior request failed: {type(ex).__name__}: {ex}")
            via = bool(case.get("via_redirect"))
            if via and not url.isascii():
                raise core.InvalidCase  # a Location header carries ASCII only
            if via:
                sig = {**sig, "via_redirect": True}
            e1 = run_one(url, route, w, net, pm, exp, fails, sig, brief, via_redirect=via, headers=shared, rpol=case.get("rpol", "default"))
            if via:
                return _done(fails, w, sig, brief)
            if e1 is not None and not fails:
                e2 = run_one(url2, route, w, net, pm, exp2, fails, {**sig, "variant": True}, brief, headers=shared)
                if e2 is not None:
                    try:
                        same_pool = pm.connection_from_url(url) is pm.connection_from_url(url2)
                    except Exception as ex:  # noqa: BLE001
                        same_pool = f"{type(ex).__name__}"
                    if same_pool is not True:
                        fails.append(Failure("equivalent-urls", {**sig, "what": "pool"}, f"equivalent URLs map to different pools ({same_pool}): {brief()}"))
                    if e1["msg"].raw != e2["msg"].raw:
                        only_port = e1["msg"].raw.replace(b":%d" % exp["port"], b"") == e2["msg"].raw.replace(b":%d" % exp["port"], b"")
                        fails.append(Failure("equivalent-urls", {**sig, "what": "bytes", "only_default_port_differs": bool(only_port and exp["port"] == exp["default_port"])}, f"equivalent URLs produced different request bytes {e1['msg'].raw[:120]!r} vs {e2['msg'].raw[:120]!r}: {brief()}"))
                    if e1["sid"] != e2["sid"]:
                        fails.append(Failure("equivalent-urls", {**sig, "what": "connection"}, f"equivalent URLs used different connections (#{e1['sid']}, #{e2['sid']}): {brief()}"))
        finally:
            try:
                pm.clear()
            except Exception:  # noqa: BLE001
                pass
    return _done(fails, w, sig, brief)


def _done(fails, w, sig, brief):
    if w.violations:
        fails.append(Failure("wire", {**sig, "what": w.violations[0][0]}, f"{w.violations[:2]}: {brief()}"))
    return fails


def check_case(case):
    res, timed_out = core.guarded(run_case, case)
    if timed_out:
        return [Failure("terminates", {"route": case.get("route")}, f"{case}: did not return")]
    return res


def nontrivial(case):
    c = case["c"]
    h = c["host"]
    return h.startswith("[") or any(ord(ch) > 127 for ch in h) or h.endswith(".") or "xn--" in h.lower() or c.get("userinfo") is not None or c.get("fragment") is not None or (not c.get("path") and c.get("query") is not None) or c.get("port") == "default"


def classes(case):
    c = case["c"]
    h = c["host"]
    out = ["route:" + case["route"], "scheme:" + c["scheme"].lower(), "port:" + str(c.get("port"))]
    out.append("host:" + ("v6zone" if "%25" in h else "v6" if h.startswith("[") else "idn" if any(ord(ch) > 127 for ch in h) else "dot" if h.endswith(".") else "v4" if h[0].isdigit() else "name"))
    if c.get("userinfo") is not None:
        out.append("userinfo")
    if c.get("fragment") is not None:
        out.append("fragment")
    if not c.get("path") and c.get("query") is not None:
        out.append("empty-path-with-query")
    if "\\" in c.get("path", ""):
        out.append("backslash-path")
    return out


def _mk(scheme, ui, host, port, path, query, frag, route):
    return {"kind": "url", "route": route, "c": {"scheme": scheme, "userinfo": ui, "host": host, "port": port, "path": path, "query": query, "fragment": frag}}


def routes_for(scheme):
    return ("direct", "forward", "forward-tls") if scheme.lower() == "http" else ("direct", "tunnel", "tunnel-tls")


def enum_cases(tier):
    """Every host x port x scheme x route with rotating other components, then every path/query/fragment/userinfo on a fixed host."""
    k = 0
    for host, port, scheme in itertools.product(HOSTS, PORTS, SCHEMES):
        for route in routes_for(scheme):
            k += 1
            yield _mk(scheme, USERINFO[k % len(USERINFO)], host, port, PATHS[k % len(PATHS)], QUERIES[k % len(QUERIES)], FRAGS[k % len(FRAGS)], route)
            if port in (None, "8080", "default") and scheme in ("http", "https") and build_url({"scheme": scheme, "host": host, "path": PATHS[k % len(PATHS)], "query": QUERIES[k % len(QUERIES)]}).isascii():
                yield dict(_mk(scheme, None, host, port, PATHS[k % len(PATHS)], QUERIES[k % len(QUERIES)], None, route), via_redirect=True, rpol=core.pick(k, 1, ("default", "rm-empty", "int")))
            if port in (None, "8080") and scheme in ("http", "https"):
                # the manager (with manager-level headers, or a header mapping the caller reuses) has just served another origin
                yield dict(_mk(scheme, None, host, port, PATHS[k % len(PATHS)], QUERIES[k % len(QUERIES)], None, route), prior=(core.pick(k, 2, ("mgr-headers", "shared-dict", "proxy-headers-tunnel", "mgr-headers-hd", "shared-hd")) if route != "direct" else core.pick(k, 2, ("mgr-headers", "shared-dict", "mgr-headers-hd", "shared-hd"))), via_redirect=core.pick(k, 3, (True, False, False)) and build_url({"scheme": scheme, "host": host, "path": PATHS[k % len(PATHS)], "query": QUERIES[k % len(QUERIES)]}).isascii())
    for path, query, frag, ui in itertools.product(PATHS, QUERIES, FRAGS, USERINFO):
        k += 1
        if tier == "quick" and k % 3:
            continue
        scheme = SCHEMES[k % 2]
        yield _mk(scheme, ui, HOSTS[k % len(HOSTS)], PORTS[k % len(PORTS)], path, query, frag, routes_for(scheme)[k % 3])


def _hyp():
    from hypothesis import strategies as st

    def mk(scheme, ui, host, port, path, query, frag, r, prior, via):
        c = _mk(scheme, ui, host, port, path, query, frag, routes_for(scheme)[r])
        if via is not None and build_url(c["c"]).isascii():
            c.update(via_redirect=True, rpol=via)
        if prior is not None and not (prior == "proxy-headers-tunnel" and c["route"] == "direct"):
            c["prior"] = prior
        return c

    return st.builds(mk, st.sampled_from(SCHEMES), st.sampled_from(USERINFO), st.sampled_from(HOSTS), st.sampled_from(PORTS),
                     st.one_of(st.sampled_from(PATHS), st.lists(st.sampled_from(["a", "b c", "..", ".", "", "%41", "é", "x;y", "a\\b", "~", "%zz"]), min_size=1, max_size=5).map(lambda l: "/" + "/".join(l))),
                     st.sampled_from(QUERIES), st.sampled_from(FRAGS), st.integers(0, 2), st.sampled_from([None, None, "mgr-headers", "shared-dict", "proxy-headers-tunnel", "mgr-headers-hd", "shared-hd"]), st.sampled_from([None, None, None, "default", "rm-empty", "int"]))


def shards(tier, seed):
    total = sum(1 for _ in enum_cases(tier))
    out = [{"part": "enum", "tier": tier, "lo": a, "hi": b} for a, b in core.split_range(total, 32 if tier == "quick" else 64)]
    n = _scale(6000 if tier == "quick" else 200000)
    nsh = 16 if tier == "quick" else 48
    for i in range(nsh):
        out.append({"part": "random", "n": n // nsh, "seed": core.derive_seed(seed, "r", i)})
    return out


def run_shard(spec):
    col = core.Collector()
    if spec["part"] == "enum":
        for i, case in enumerate(enum_cases(spec["tier"])):
            if spec["lo"] <= i < spec["hi"]:
                col.case(case, nontrivial(case), classes(case), check_case(case), distinct_by_construction=True)
    else:

        def body(case):
            col.case(case, nontrivial(case), classes(case), check_case(case))

        core.hyp_run(_hyp(), spec["n"], spec["seed"], body)
    return col


def presets():
    return [
        _mk("https", "user:pw", "[::1]", "8443", "/p", "q", "frag", "tunnel"),
        _mk("http", "user:pw", "example.com", None, "/p", "q", "frag", "forward"),
        _mk("https", None, "a.b.", None, "", "q=1", None, "direct"),
        _mk("http", None, "[fe80::1%25eth0]", "8080", "/a/../b", None, None, "direct"),
    ]


def min_nontrivial(tier):
    return 2000
