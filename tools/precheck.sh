#!/bin/bash
# usage: tools/precheck.sh Cxx V [checks...] - quick triage of a sub-agent's seed before the full intake: runs the quick
# tier of our check(s) against a scratch copy of /repo/src with /tmp/wt/Cxx/OUT/V/patch.diff applied
prop="$1"; v="$2"; shift 2
checks=("$@"); [ ${#checks[@]} -eq 0 ] && checks=("$prop")
here="$(cd "$(dirname "$0")/.." && pwd)"
for c in "${checks[@]}"; do
  out="$("$here/tools/with_patch.sh" "/tmp/wt/$prop/OUT/$v/patch.diff" -- "$here/check" "$c" --no-evidence 2>&1)"; rc=$?
  echo "$prop-$v $c rc=$rc $(echo "$out" | grep -m1 -A1 '^VIOLATION' | tail -1 | cut -c1-160)"
done
