"""H2: identity TLS layer for the ROUTING properties (C05, C06, C09, C15, C01; never used to decide C07/C08).

A duck-typed ssl context, handed to urllib3 through its documented ssl_context= / proxy_ssl_context=
parameters.  A "handshake" is one in-band round trip of marker records on the in-memory socket:

    client -> b"\\x16NULLTLS-HELLO <ctx label> <verify_mode> <check_hostname> <server_hostname|->\\n"
    server -> b"\\x16NULLTLS-CERT <identity id>\\n"

after which application bytes flow unchanged (plaintext), so the server side of the harness can read
them, and knows exactly where each TLS layer started and which name was asked for.  The identity id is
looked up in IDENTITIES; chain and hostname verification are emulated from the identity's `trusted`
flag and names with the independent reference matcher (vlib.refname), honouring verify_mode and
check_hostname the way the stdlib does.  Works both for SSLContext.wrap_socket and, through real
ssl.MemoryBIO objects, for urllib3's SSLTransport (TLS in TLS).
"""
from __future__ import annotations

import ssl

HELLO = b"\x16NULLTLS-HELLO "
CERT = b"\x16NULLTLS-CERT "

IDENTITIES: dict[int, "Identity"] = {}


class Identity:
    _seq = 0

    def __init__(self, names=(), cn=None, trusted=True, label=""):
        Identity._seq += 1
        self.id = Identity._seq
        self.names = [tuple(x) for x in names]  # [("DNS", "a.test"), ("IP Address", "10.0.0.1")]
        self.cn = cn
        self.trusted = trusted
        self.label = label
        self.der = b"NULLTLS-DER-%d-" % self.id + repr((self.names, cn, trusted)).encode()
        IDENTITIES[self.id] = self

    def peercert(self):
        d = {"subject": ((("commonName", self.cn),),) if self.cn else (), "issuer": ((("commonName", "nulltls ca"),),), "version": 3}
        if self.names:
            d["subjectAltName"] = tuple(self.names)
        return d


def reset():
    IDENTITIES.clear()
    Identity._seq = 0


def _verify(identity: Identity, verify_mode, check_hostname, server_hostname):
    if verify_mode != ssl.CERT_NONE and not identity.trusted:
        raise ssl.SSLCertVerificationError(1, "[SSL: CERTIFICATE_VERIFY_FAILED] certificate verify failed: unable to get local issuer certificate (nulltls)")
    if check_hostname and verify_mode != ssl.CERT_NONE:
        from . import refname

        if server_hostname is None:
            raise ValueError("check_hostname requires server_hostname")
        sans = [(k, v) for k, v in identity.names]
        verdict = refname.decide(sans, identity.cn, server_hostname, False)
        if verdict == "reject":
            raise ssl.SSLCertVerificationError(1, f"[SSL: CERTIFICATE_VERIFY_FAILED] certificate verify failed: Hostname mismatch, certificate is not valid for '{server_hostname}'. (nulltls)")


def hello_record(ctx: "NullTLSContext", server_hostname) -> bytes:
    sh = server_hostname if server_hostname not in (None, "") else "-"
    if isinstance(sh, bytes):
        sh = sh.decode("ascii", "replace")
    return HELLO + f"{ctx.label} {int(ctx.verify_mode)} {int(bool(ctx.check_hostname))} {sh}".encode("utf-8", "replace") + b"\n"


def parse_cert_record(line: bytes) -> Identity:
    if not line.startswith(CERT) or not line.endswith(b"\n"):
        raise ssl.SSLError(1, f"[SSL: WRONG_VERSION_NUMBER] wrong version number (nulltls: peer answered {line[:40]!r})")
    return IDENTITIES[int(line[len(CERT) :].strip())]


class NullTLSContext:
    """Duck-typed replacement for ssl.SSLContext (only what urllib3 touches)."""

    def __init__(self, label="ctx", verify_mode=ssl.CERT_REQUIRED, check_hostname=True):
        self.label = label
        self._verify_mode = verify_mode
        self._check_hostname = check_hostname
        self.options = 0
        self.minimum_version = ssl.TLSVersion.TLSv1_2
        self.maximum_version = ssl.TLSVersion.MAXIMUM_SUPPORTED
        self.hostname_checks_common_name = False
        self.loaded: list = []
        self.alpn: list = []
        self.wraps: list = []  # (kind, server_hostname, verify_mode, check_hostname)
        self.post_handshake_auth = False

    # stdlib semantics: check_hostname=True forces CERT_REQUIRED; CERT_NONE with check_hostname is an error
    @property
    def verify_mode(self):
        return self._verify_mode

    @verify_mode.setter
    def verify_mode(self, v):
        v = ssl.VerifyMode(v)
        if v == ssl.CERT_NONE and self._check_hostname:
            raise ValueError("Cannot set verify_mode to CERT_NONE when check_hostname is enabled.")
        self._verify_mode = v

    @property
    def check_hostname(self):
        return self._check_hostname

    @check_hostname.setter
    def check_hostname(self, v):
        v = bool(v)
        if v and self._verify_mode == ssl.CERT_NONE:
            self._verify_mode = ssl.CERT_REQUIRED
        self._check_hostname = v

    def load_verify_locations(self, cafile=None, capath=None, cadata=None):
        self.loaded.append(("verify", cafile, capath, cadata))

    def load_default_certs(self, *a):
        self.loaded.append(("default",))

    def load_cert_chain(self, certfile, keyfile=None, password=None):
        self.loaded.append(("chain", certfile, keyfile, password))

    def set_alpn_protocols(self, protos):
        self.alpn = list(protos)

    def set_ciphers(self, c):
        pass

    def wrap_socket(self, sock, server_side=False, do_handshake_on_connect=True, suppress_ragged_eofs=True, server_hostname=None, session=None):
        self.wraps.append(("socket", server_hostname, self.verify_mode, self.check_hostname))
        return NullTLSSocket(sock, self, server_hostname)

    def wrap_bio(self, incoming, outgoing, server_side=False, server_hostname=None, session=None):
        self.wraps.append(("bio", server_hostname, self.verify_mode, self.check_hostname))
        return NullSSLObject(incoming, outgoing, self, server_hostname)


class NullSSLObject:
    """What SSLTransport drives through ssl.MemoryBIO pairs."""

    def __init__(self, incoming, outgoing, ctx, server_hostname):
        self.incoming, self.outgoing, self.ctx, self.server_hostname = incoming, outgoing, ctx, server_hostname
        self._state = 0
        self._line = b""
        self.identity = None

    def do_handshake(self):
        if self._state == 0:
            self.outgoing.write(hello_record(self.ctx, self.server_hostname))
            self._state = 1
        if self._state == 1:
            while not self._line.endswith(b"\n"):
                b = self.incoming.read(1)
                if not b:
                    if self.incoming.eof:
                        raise ssl.SSLEOFError(ssl.SSL_ERROR_EOF, "EOF occurred in violation of protocol (nulltls)")
                    raise ssl.SSLWantReadError(ssl.SSL_ERROR_WANT_READ, "The operation did not complete (read) (nulltls)")
                self._line += b
            self.identity = parse_cert_record(self._line)
            _verify(self.identity, self.ctx.verify_mode, self.ctx.check_hostname, self.server_hostname)
            self._state = 2

    def read(self, n=1024, buffer=None):
        data = self.incoming.read(n)
        if not data:
            if self.incoming.eof:
                data = b""
            else:
                raise ssl.SSLWantReadError(ssl.SSL_ERROR_WANT_READ, "The operation did not complete (read) (nulltls)")
        if buffer is not None:
            buffer[: len(data)] = data
            return len(data)
        return data

    def write(self, data):
        data = bytes(data)
        self.outgoing.write(data)
        return len(data)

    def unwrap(self):
        return None

    def getpeercert(self, binary_form=False):
        if self.identity is None:
            raise ValueError("handshake not done yet")
        if binary_form:
            return self.identity.der
        return self.identity.peercert() if self.ctx.verify_mode != ssl.CERT_NONE else {}

    def version(self):
        return "TLSv1.3"

    def cipher(self):
        return ("TLS_NULL", "TLSv1.3", 0)

    def selected_alpn_protocol(self):
        return None

    def shared_ciphers(self):
        return None

    def compression(self):
        return None


class NullTLSSocket:
    """Returned by NullTLSContext.wrap_socket: the underlying (fake) socket after the marker handshake."""

    def __init__(self, sock, ctx, server_hostname):
        self._sock = sock
        self._fake = getattr(sock, "_fake", sock)
        self.ctx = ctx
        self.server_hostname = server_hostname
        self.identity = None
        try:
            sock.sendall(hello_record(ctx, server_hostname))
            line = b""
            while not line.endswith(b"\n"):
                b = sock.recv(1)
                if not b:
                    raise ssl.SSLEOFError(ssl.SSL_ERROR_EOF, "EOF occurred in violation of protocol (nulltls)")
                line += b
            self.identity = parse_cert_record(line)
            _verify(self.identity, ctx.verify_mode, ctx.check_hostname, server_hostname)
        except BaseException:
            sock.close()
            raise

    # -- the socket surface http.client / urllib3 use, passed straight through
    def __getattr__(self, name):
        return getattr(self._sock, name)

    @property
    def _io_refs(self):
        return self._sock._io_refs

    @_io_refs.setter
    def _io_refs(self, v):
        self._sock._io_refs = v

    def makefile(self, mode="r", buffering=None, **kw):
        return self._sock.makefile(mode, buffering, **kw)

    def getpeercert(self, binary_form=False):
        if binary_form:
            return self.identity.der
        return self.identity.peercert() if self.ctx.verify_mode != ssl.CERT_NONE else {}

    def version(self):
        return "TLSv1.3"

    def cipher(self):
        return ("TLS_NULL", "TLSv1.3", 0)

    def selected_alpn_protocol(self):
        return None

    def unwrap(self):
        return self._sock

    def __repr__(self):
        return f"<NullTLSSocket over {self._sock!r} sni={self.server_hostname!r}>"
