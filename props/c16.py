"""C16 - HTTPHeaderDict behaves as a case-insensitive, order-preserving multimap.

Model-based: operation sequences over a bundle of live dicts are applied to the
real HTTPHeaderDict objects and to a reference multimap; after EVERY step EVERY
live dict is observed through the whole public read API and compared.
"""
from __future__ import annotations

import itertools
import os

from vlib import core
from vlib.core import Failure

PROP = "C16"
RULE = (
    "a case is an operation sequence over a bundle of live HTTPHeaderDicts (d0 starts empty; copy/|/ctor append new "
    "dicts that are mutated later). (a) exhaustive: every sequence up to length L (3 quick, 4 thorough) over a 41-op "
    "alphabet on names {A,a,B} x values {1,2}; (b) Hypothesis-generated sequences up to 30 ops over names "
    "{A,a,B,b,Set-Cookie,set-cookie} x values {'1','2','x, y',''} and all source types. Non-trivial = the sequence "
    "assigns/deletes/pops a name after an add to the same name (case-insensitively), or mutates a dict after a "
    "copy/union was taken from or into it. Distinct by hash of the op list (exhaustive part: by construction)."
)
ASSUMPTIONS = [
    "reference multimap in this file encodes the documented semantics (assignment replaces values and display name in place; "
    "add appends or comma-joins the last value; first-seen display name unless re-assigned)",
    "mapping sources with case-colliding keys are passed only to add-based entry points (extend, |, |=), never to the "
    "constructor of a plain dict source with collisions or update(), which the docs call undefined",
]
EXHAUSTIVE = {"quick": False, "thorough": False}

NAMES = ["A", "a", "B", "b", "Set-Cookie", "set-cookie"]
VALUES = ["1", "2", "x, y", ""]
PROBES = ["A", "a", "B", "b", "Set-Cookie", "SET-COOKIE", "set-cookie", "C"]
PMC = ["Content-Encoding", "Content-Language", "Content-Location", "Content-Type", "Content-Length", "Digest", "Last-Modified"]


def _scale(n: int) -> int:
    return max(1, int(n * float(os.environ.get("VERIF_SCALE", "1"))))


# ------------------------------------------------------------------ reference model


class Model:
    """Ordered list of entries [display_name, [line values]] keyed case-insensitively."""

    def __init__(self, entries=None):
        self.e = [[d, list(v)] for d, v in (entries or [])]

    def _idx(self, k):
        kl = k.lower()
        for i, (d, _) in enumerate(self.e):
            if d.lower() == kl:
                return i
        return -1

    def set(self, k, v):
        i = self._idx(k)
        if i < 0:
            self.e.append([k, [v]])
        else:
            self.e[i] = [k, [v]]

    def delete(self, k):
        i = self._idx(k)
        if i < 0:
            raise KeyError(k)
        del self.e[i]

    def add(self, k, v, combine=False):
        i = self._idx(k)
        if i < 0:
            self.e.append([k, [v]])
        elif combine:
            self.e[i][1][-1] = self.e[i][1][-1] + ", " + v
        else:
            self.e[i][1].append(v)

    def merged(self, k):
        i = self._idx(k)
        if i < 0:
            raise KeyError(k)
        return ", ".join(self.e[i][1])

    def lines(self):
        return [(d, v) for d, vs in self.e for v in vs]

    def mergeditems(self):
        return [(d, ", ".join(vs)) for d, vs in self.e]

    def copy(self):
        return Model(self.e)


def _src_pairs_for_add(kind, payload, models):
    """(name, value) pairs that an add-based import of the source must add, in order."""
    if kind == "hd":
        return models[payload].lines()
    return [(k, v) for k, v in payload]


def _src_pairs_for_set(kind, payload, models):
    if kind == "hd":
        return models[payload].mergeditems()
    return [(k, v) for k, v in payload]


class KeysObj:
    """Not a Mapping, not Iterable: only keys() and __getitem__ (the duck-typed source)."""

    def __init__(self, pairs):
        self._d = dict(pairs)

    def keys(self):
        return list(self._d.keys())

    def __getitem__(self, k):
        return self._d[k]


def _mk_source(kind, payload, reals):
    if kind == "hd":
        return reals[payload]
    if kind == "dict":
        return dict(payload)
    if kind == "pairs":
        return [tuple(p) for p in payload]
    if kind == "tuplepairs":
        return tuple(tuple(p) for p in payload)
    if kind == "iterpairs":
        return iter([tuple(p) for p in payload])  # a one-shot iterator: whoever looks at it consumes it
    if kind == "genpairs":
        return (tuple(p) for p in payload)
    if kind == "keysobj":
        return KeysObj(payload)
    raise core.InvalidCase


def _unique_keys(payload):
    ks = [k for k, _ in payload]
    return len(set(ks)) == len(ks)


def _ci_unique(payload):
    ks = [k.lower() for k, _ in payload]
    return len(set(ks)) == len(ks)


# ------------------------------------------------------------------ observation


def observe(real, model: Model, HTTPHeaderDict) -> str | None:
    """Compare the complete observable state; return a description of the first difference."""
    for p in PROBES:
        exp_in = model._idx(p) >= 0
        if (p in real) != exp_in:
            return f"{p!r} in d -> {p in real}, model {exp_in}"
        if exp_in:
            if real[p] != model.merged(p):
                return f"d[{p!r}] -> {real[p]!r}, model {model.merged(p)!r}"
            if real.get(p) != model.merged(p):
                return f"d.get({p!r}) -> {real.get(p)!r}"
            exp_list = model.e[model._idx(p)][1]
            if real.getlist(p) != exp_list:
                return f"getlist({p!r}) -> {real.getlist(p)!r}, model {exp_list!r}"
            for v in exp_list:
                if (p, v) not in real.items():
                    return f"({p!r},{v!r}) not in items()"
        else:
            try:
                real[p]
                return f"d[{p!r}] did not raise KeyError"
            except KeyError:
                pass
            if real.get(p, "dflt") != "dflt":
                return f"d.get({p!r}, dflt) -> {real.get(p, 'dflt')!r}"
            if real.getlist(p) != []:
                return f"getlist({p!r}) on absent -> {real.getlist(p)!r}"
            if (p, "1") in real.items():
                return f"({p!r},'1') in items() for an absent name"
    if len(real) != len(model.e):
        return f"len -> {len(real)}, model {len(model.e)}"
    names = [d for d, _ in model.e]
    if list(real) != names:
        return f"iteration -> {list(real)!r}, model {names!r}"
    if list(real.keys()) != names:
        return f"keys() -> {list(real.keys())!r}, model {names!r}"
    if list(real.items()) != model.lines():
        return f"items() -> {list(real.items())!r}, model {model.lines()!r}"
    if len(real.items()) != len(model.lines()):
        return f"len(items()) -> {len(real.items())}"
    if list(real.iteritems()) != model.lines():
        return f"iteritems() -> {list(real.iteritems())!r}"
    if list(real.itermerged()) != model.mergeditems():
        return f"itermerged() -> {list(real.itermerged())!r}, model {model.mergeditems()!r}"
    if list(real.values()) != [v for _, v in model.mergeditems()]:
        return f"values() -> {list(real.values())!r}"
    plain = {d: v for d, v in model.mergeditems()}
    if not (real == plain) or (real != plain):
        return f"d == {plain!r} is False"
    lowered = {d.swapcase(): v for d, v in model.mergeditems()}
    if not (real == lowered):
        return f"d == {lowered!r} (other casing) is False"
    # a plain dict that spells a two-line field in two casings is an accepted source: equality goes through the
    # same case-insensitive construction as the constructor does
    by_name: dict = {}
    for d, v in model.lines():
        by_name.setdefault(d.lower(), []).append((d, v))
    split = {}
    ok_split = True
    for low, lines in by_name.items():
        if len(lines) == 2 and lines[0][0].swapcase() != lines[0][0]:
            split[lines[0][0]] = lines[0][1]
            split[lines[0][0].swapcase()] = lines[1][1]
        elif len(lines) == 1:
            split[lines[0][0]] = lines[0][1]
        else:
            ok_split = False
    if ok_split and len(split) > len(by_name) and not (real == split):
        return f"d == {split!r} (one field under two spellings) is False"
    bigger = dict(plain)
    bigger["Zz"] = "q"
    if real == bigger:
        return "d == (dict with an extra field) is True"
    if plain:
        k0 = next(iter(plain))
        changed = dict(plain)
        changed[k0] = plain[k0] + "!"
        if real == changed:
            return "d == (dict with a changed value) is True"
    if not (real == iter(list(model.lines()))) or (real != (x for x in model.lines())):
        return "d != one-shot iterator over its own lines"
    rebuilt = HTTPHeaderDict()
    for d, v in model.lines():
        rebuilt.add(d, v)
    if not (real == rebuilt):
        return "d != HTTPHeaderDict rebuilt from the model's lines"
    if real == 5 or real == None:  # noqa: E711
        return "d == non-mapping is True"
    try:
        back = eval(repr(real), {"HTTPHeaderDict": HTTPHeaderDict})  # noqa: S307 - repr of our own object
    except Exception as e:  # noqa: BLE001
        return f"repr {repr(real)!r} does not evaluate: {e!r}"
    if not (back == real):
        return f"eval(repr(d)) != d for {repr(real)}"
    return None


# ------------------------------------------------------------------ interpreter


def run_ops(ops) -> tuple[list[Failure], bool]:
    from urllib3 import HTTPHeaderDict

    reals = [HTTPHeaderDict()]
    models = [Model()]
    added: list[set] = [set()]  # per dict: lower names that received an add
    related: set[int] = set()  # dicts that were source or result of a copy/union
    nontrivial = False
    fails: list[Failure] = []

    def new(real, model, *parents):
        reals.append(real)
        models.append(model)
        added.append(set(n for p in parents for n in added[p]))
        related.add(len(reals) - 1)
        related.update(parents)

    for step, op in enumerate(ops):
        name = op[0]
        try:
            if name in ("ctor",):
                kind, payload = op[1], op[2]
                if kind == "hd":
                    payload = payload % len(reals)
                elif kind in ("dict", "keysobj") and not _unique_keys(payload):
                    raise core.InvalidCase
                if kind != "hd" and not _ci_unique(payload) and kind == "dict":
                    raise core.InvalidCase
                src = _mk_source(kind, payload, reals)
                kwargs = dict(op[3]) if len(op) > 3 else {}
                if kwargs and not _ci_unique(list(kwargs.items())):
                    raise core.InvalidCase
                r = HTTPHeaderDict(src, **kwargs)
                m = Model()
                for k, v in _src_pairs_for_add(kind, payload, models):
                    m.add(k, v)
                for k, v in kwargs.items():
                    m.add(k, v)
                new(r, m, *( [payload] if kind == "hd" else []))
                continue
            i = op[1] % len(reals)
            r, m = reals[i], models[i]
            if i in related and name not in ("copy", "or", "ror"):
                nontrivial = True
            if name == "set":
                if op[2].lower() in added[i]:
                    nontrivial = True
                r[op[2]] = op[3]
                m.set(op[2], op[3])
            elif name in ("del", "pop", "discard", "popd"):
                k = op[2]
                if k.lower() in added[i]:
                    nontrivial = True
                exp_exc = m._idx(k) < 0
                if name == "del":
                    try:
                        del r[k]
                        raised = False
                    except KeyError:
                        raised = True
                    if raised != exp_exc:
                        fails.append(Failure("model-agreement", {"op": name, "what": "KeyError"}, f"step {step} {op}: KeyError raised={raised}, model expects {exp_exc}"))
                    if not exp_exc:
                        m.delete(k)
                elif name == "pop":
                    try:
                        got = r.pop(k)
                        raised = False
                    except KeyError:
                        raised = True
                    if raised != exp_exc:
                        fails.append(Failure("model-agreement", {"op": name, "what": "KeyError"}, f"step {step} {op}: KeyError raised={raised}, model expects {exp_exc}"))
                    if not exp_exc:
                        want = m.merged(k)
                        m.delete(k)
                        if not raised and got != want:
                            fails.append(Failure("model-agreement", {"op": name, "what": "return"}, f"step {step} {op}: pop returned {got!r}, model {want!r}"))
                elif name == "popd":
                    got = r.pop(k, "dflt")
                    want = "dflt" if exp_exc else m.merged(k)
                    if not exp_exc:
                        m.delete(k)
                    if got != want:
                        fails.append(Failure("model-agreement", {"op": name, "what": "return"}, f"step {step} {op}: pop(k, dflt) returned {got!r}, model {want!r}"))
                else:
                    r.discard(k)
                    if not exp_exc:
                        m.delete(k)
            elif name == "add":
                r.add(op[2], op[3], combine=bool(op[4]))
                m.add(op[2], op[3], bool(op[4]))
                added[i].add(op[2].lower())
            elif name == "setdefault":
                k, v = op[2], op[3]
                got = r.setdefault(k, v)
                if m._idx(k) < 0:
                    m.set(k, v)
                    want = v
                else:
                    want = m.merged(k)
                if got != want:
                    fails.append(Failure("model-agreement", {"op": name, "what": "return"}, f"step {step} {op}: setdefault returned {got!r}, model {want!r}"))
            elif name in ("extend", "ior", "or", "ror", "update"):
                kind, payload = op[2], op[3]
                if kind == "hd":
                    payload = payload % len(reals)
                    related.add(payload)
                elif kind in ("dict", "keysobj") and not _unique_keys(payload):
                    raise core.InvalidCase
                if name in ("ior", "or", "ror") and kind == "keysobj":
                    raise core.InvalidCase  # operators accept Mapping/Iterable sources only
                if name == "ror" and kind not in ("dict",):
                    raise core.InvalidCase
                if name == "update" and not (kind == "hd" or _ci_unique(payload)):
                    raise core.InvalidCase  # documented undefined
                if name == "update" and kind == "keysobj":
                    pass
                if name == "ror" and not _ci_unique(payload):
                    raise core.InvalidCase  # goes through the constructor
                src = _mk_source(kind, payload, reals)
                src_model_lines = _src_pairs_for_add(kind, payload, models)
                if name == "extend":
                    kwargs = dict(op[4]) if len(op) > 4 else {}
                    r.extend(src, **kwargs)
                    for k, v in src_model_lines:
                        m.add(k, v)
                        added[i].add(k.lower())
                    for k, v in kwargs.items():
                        m.add(k, v)
                        added[i].add(k.lower())
                elif name == "ior":
                    before = r
                    r |= src
                    if r is not before:
                        fails.append(Failure("model-agreement", {"op": name, "what": "identity"}, f"step {step}: |= returned a different object"))
                        reals[i] = r
                    for k, v in src_model_lines:
                        m.add(k, v)
                        added[i].add(k.lower())
                elif name == "or":
                    res = r | src
                    mm = m.copy()
                    for k, v in src_model_lines:
                        mm.add(k, v)
                    new(res, mm, i, *([payload] if kind == "hd" else []))
                    added[-1].update(k.lower() for k, _ in src_model_lines)
                elif name == "ror":
                    res = src | r
                    mm = Model()
                    for k, v in src_model_lines:
                        mm.add(k, v)
                    for k, v in m.lines():
                        mm.add(k, v)
                    new(res, mm, i)
                    added[-1].update(k.lower() for k, _ in m.lines())
                else:  # update -> __setitem__ semantics
                    for k, _ in _src_pairs_for_set(kind, payload, models):
                        if k.lower() in added[i]:
                            nontrivial = True
                    pairs = _src_pairs_for_set(kind, payload, models)
                    r.update(src)
                    for k, v in pairs:
                        m.set(k, v)
            elif name == "copy":
                new(r.copy(), m.copy(), i)
            elif name == "pmc":
                out = r._prepare_for_method_change()
                if out is not r:
                    fails.append(Failure("model-agreement", {"op": name, "what": "identity"}, "returned another object"))
                for h in PMC:
                    if m._idx(h) >= 0:
                        m.delete(h)
            elif name == "popitem":
                if not m.e:
                    try:
                        r.popitem()
                        fails.append(Failure("model-agreement", {"op": name, "what": "KeyError"}, f"step {step}: popitem on empty did not raise"))
                    except KeyError:
                        pass
                else:
                    got = r.popitem()
                    d0 = m.e[0][0]
                    want = (d0, m.merged(d0))
                    m.delete(d0)
                    if tuple(got) != want:
                        fails.append(Failure("model-agreement", {"op": name, "what": "return"}, f"step {step}: popitem -> {got!r}, model {want!r}"))
            elif name == "clear":
                r.clear()
                m.e = []
            else:
                raise core.InvalidCase
        except core.InvalidCase:
            raise
        except (KeyError, IndexError, TypeError, ValueError, AttributeError, AssertionError) as e:
            fails.append(Failure("model-agreement", {"op": name, "what": "exception", "exc": type(e).__name__}, f"step {step} {op}: unexpected {type(e).__name__}: {e}"))
            break
        # invariant after every step, for every live dict (aliasing included)
        for j, (rr, mm) in enumerate(zip(reals, models)):
            diff = observe(rr, mm, HTTPHeaderDict)
            if diff:
                fails.append(
                    Failure(
                        "model-agreement",
                        {"op": name, "what": "state"},
                        f"after step {step} {op}: dict d{j}: {diff}",
                    )
                )
                return fails, nontrivial
    return fails, nontrivial


def check_case(case) -> list[Failure]:
    if case.get("kind") != "ops":
        raise core.InvalidCase
    return run_ops(case["ops"])[0]


# ------------------------------------------------------------------ generators

EX_NAMES = ["A", "a", "B"]
EX_VALUES = ["1", "2"]


def ex_alphabet():
    ops = []
    for k in EX_NAMES:
        for v in EX_VALUES:
            ops.append(["set", 0, k, v])
            ops.append(["add", 0, k, v, 0])
            ops.append(["add", 0, k, v, 1])
        ops.append(["del", 0, k])
        ops.append(["pop", 0, k])
        ops.append(["setdefault", 0, k, "2"])
        ops.append(["add", -1, k, "1", 0])  # on the most recently created dict
        ops.append(["set", -1, k, "2"])
    ops.append(["copy", 0])
    ops.append(["or", 0, "pairs", [["a", "1"], ["A", "2"]]])
    ops.append(["ior", 0, "iterpairs", [["B", "1"], ["a", "2"]]])
    ops.append(["ior", 0, "hd", -1])
    ops.append(["extend", -1, "hd", 0])
    ops.append(["update", 0, "dict", [["a", "2"]]])
    return ops


def _hyp_ops():
    from hypothesis import strategies as st

    name = st.sampled_from(NAMES + ["Content-Type", "content-length"])
    val = st.sampled_from(VALUES)
    idx = st.integers(0, 5)
    pairs = st.lists(st.tuples(name, val).map(list), max_size=4)
    uniq_pairs = pairs.map(lambda ps: [p for n, p in enumerate(ps) if p[0] not in [q[0] for q in ps[:n]]])
    ci_uniq_pairs = pairs.map(lambda ps: [p for n, p in enumerate(ps) if p[0].lower() not in [q[0].lower() for q in ps[:n]]])
    kw = st.lists(st.tuples(st.sampled_from(["A", "a", "B", "b", "c"]), val).map(list), max_size=2).map(
        lambda ps: [p for n, p in enumerate(ps) if p[0].lower() not in [q[0].lower() for q in ps[:n]]]
    )
    add_src = st.one_of(
        st.tuples(st.just("hd"), idx),
        st.tuples(st.just("dict"), uniq_pairs),
        st.tuples(st.just("pairs"), pairs),
        st.tuples(st.just("tuplepairs"), pairs),
        st.tuples(st.just("iterpairs"), pairs),
        st.tuples(st.just("genpairs"), pairs),
        st.tuples(st.just("keysobj"), uniq_pairs),
    )
    op_src = st.one_of(st.tuples(st.just("hd"), idx), st.tuples(st.just("dict"), uniq_pairs), st.tuples(st.just("pairs"), pairs), st.tuples(st.just("iterpairs"), pairs), st.tuples(st.just("genpairs"), pairs))
    upd_src = st.one_of(st.tuples(st.just("hd"), idx), st.tuples(st.just("dict"), ci_uniq_pairs), st.tuples(st.just("pairs"), ci_uniq_pairs))
    op = st.one_of(
        st.tuples(st.just("set"), idx, name, val).map(list),
        st.tuples(st.just("add"), idx, name, val, st.integers(0, 1)).map(list),
        st.tuples(st.just("add"), idx, name, val, st.integers(0, 1)).map(list),
        st.tuples(st.just("del"), idx, name).map(list),
        st.tuples(st.just("pop"), idx, name).map(list),
        st.tuples(st.just("popd"), idx, name).map(list),
        st.tuples(st.just("discard"), idx, name).map(list),
        st.tuples(st.just("setdefault"), idx, name, val).map(list),
        st.tuples(st.just("copy"), idx).map(list),
        st.tuples(st.just("pmc"), idx).map(list),
        st.tuples(st.just("popitem"), idx).map(list),
        st.tuples(st.just("clear"), idx).map(list),
        st.builds(lambda i, s, k: ["extend", i, s[0], s[1], k], idx, add_src, kw),
        st.builds(lambda i, s: ["ior", i, s[0], s[1]], idx, op_src),
        st.builds(lambda i, s: ["or", i, s[0], s[1]], idx, op_src),
        st.builds(lambda i, p: ["ror", i, "dict", p], idx, ci_uniq_pairs),
        st.builds(lambda i, s: ["update", i, s[0], s[1]], idx, upd_src),
        st.builds(lambda s, k: ["ctor", s[0], s[1], k], st.one_of(st.tuples(st.just("hd"), idx), st.tuples(st.just("dict"), ci_uniq_pairs), st.tuples(st.just("pairs"), pairs), st.tuples(st.just("keysobj"), uniq_pairs)), kw),
    )
    return st.lists(op, min_size=1, max_size=30)


def shards(tier: str, seed: int) -> list[dict]:
    L = 3 if tier == "quick" else 4
    alpha = ex_alphabet()
    out = []
    for first in range(len(alpha)):
        out.append({"part": "exhaustive", "L": L, "first": first})
    n = _scale(24000 if tier == "quick" else 600000)
    nsh = 16 if tier == "quick" else 64
    for i in range(nsh):
        out.append({"part": "random", "n": n // nsh, "seed": core.derive_seed(seed, "r", i)})
    return out


def run_shard(spec):
    col = core.Collector()
    if spec["part"] == "exhaustive":
        alpha = ex_alphabet()
        L = spec["L"]
        first = alpha[spec["first"]]
        seqs = [[first]] if True else []
        for n in range(1, L):
            for rest in itertools.product(alpha, repeat=n):
                seqs.append([first, *rest])
        for ops in seqs:
            fails, nt = run_ops(ops)
            if fails or (nt and not col.samples.get("exhaustive")):
                col.case({"kind": "ops", "ops": ops}, nt, ["exhaustive"], fails, distinct_by_construction=True)
            else:
                col.evaluations += 1
                if nt:
                    col.nontrivial_counted += 1
            col.classes["exh:len%d" % len(ops)] += 1
    else:

        def body(ops):
            try:
                fails, nt = run_ops(ops)
            except core.InvalidCase:
                col.note("invalid_generated")
                return
            kinds = sorted({o[0] for o in ops})
            col.case({"kind": "ops", "ops": ops}, nt, ["rnd:" + k for k in kinds] + ["rnd:len>=10"] * (len(ops) >= 10), fails)

        core.hyp_run(_hyp_ops(), spec["n"], spec["seed"], body)
    return col


def presets():
    return [
        {"kind": "ops", "ops": [["add", 0, "Set-Cookie", "1", 0], ["add", 0, "set-cookie", "2", 0], ["set", 0, "A", "7"], ["copy", 0], ["add", 1, "A", "2", 1], ["del", 0, "SET-COOKIE"]]},
        {"kind": "ops", "ops": [["add", 0, "a", "1", 0], ["copy", 0], ["add", 1, "A", "2", 0], ["or", 0, "hd", 1], ["set", 2, "a", "x, y"]]},
    ]


def min_nontrivial(tier):
    return 5000
