"""C06 - credentials are never forwarded to a different origin on redirect."""
from __future__ import annotations

import copy
import itertools
import os

from vlib import core, fakenet, redirects
from vlib.core import Failure

PROP = "C06"
RULE = (
    "a case is (redirect chain of <= 5 hops, starting at any of the origins, over origins http a.test:80 / http b.test:80 / http a.test:8080 / https "
    "a.test:443, Location forms absolute, upper-case, explicit default port, scheme-relative, path, relative, ../, "
    "?query; entry PoolManager | ProxyManager (forwarding and tunnel) | bare pool; headers = sensitive names "
    "(Authorization / Cookie / Proxy-Authorization / custom) in generated letter casings mixed with 0-3 benign headers, "
    "carried as dict, HTTPHeaderDict with repeated fields, manager-level defaults, or request headers over manager "
    "defaults; remove_headers_on_redirect default / custom / empty at request or manager level). Oracle on what each "
    "origin's server received: from the first hop whose origin (scheme, host case-insensitively, effective port) "
    "differs from the previous hop's on, no header named by the policy appears; every other caller header appears on "
    "every hop with its value; hop 0 carries everything; the caller's objects are unchanged; a bare pool raises "
    "HostChangedError and the other host sees nothing. Non-trivial = a sensitive header was supplied and a "
    "cross-origin hop was taken."
)
ASSUMPTIONS = [
    "origins differing only in letter case or an explicit default port are the same origin: stripping there is allowed but not required (only leaks are violations)",
    "vlib/world.py in-memory origins; https via the null TLS layer (routing only)",
    "repeated fields of an HTTPHeaderDict are compared after joining their values with ', ' (a forwarding ProxyManager merges them that way)",
]
EXHAUSTIVE = {"quick": False, "thorough": False}

ORIGINS = [["http", "a.test", 80], ["http", "b.test", 80], ["http", "a.test", 8080], ["https", "a.test", 443]]
DEFAULT_SET = {"authorization", "cookie", "proxy-authorization"}
SENSITIVE = ["Authorization", "Cookie", "Proxy-Authorization"]
BENIGN = [["X-Keep", "1"], ["Accept-Language", "en"], ["X-Trace", "abc, def"], ["User-Agent", "verif/1"]]
MODES = ["req-dict", "req-hd", "mgr", "mgr-hd", "both"]


def _scale(n):
    return max(1, int(n * float(os.environ.get("VERIF_SCALE", "1"))))


def casing(name: str, bits: int) -> str:
    out = []
    k = 0
    for ch in name:
        if ch.isalpha():
            out.append(ch.upper() if (bits >> k) & 1 else ch.lower())
            k += 1
        else:
            out.append(ch)
    return "".join(out)


def _mk_headers(pairs, kind):
    from urllib3._collections import HTTPHeaderDict

    if kind == "dict":
        return {k: v for k, v in pairs}
    h = HTTPHeaderDict()
    for k, v in pairs:
        h.add(k, v)
    return h


def _joined(pairs):
    out: dict = {}
    for k, v in pairs:
        out.setdefault(k.lower(), []).append(v)
    return {k: ", ".join(v) for k, v in out.items()}


def run_case(case) -> list[Failure]:
    import urllib3
    from urllib3 import exceptions as ue
    from urllib3._collections import HTTPHeaderDict

    if case.get("kind") != "cred" or case.get("entry") not in ("pm", "proxy", "pool") or case.get("mode") not in MODES:
        raise core.InvalidCase
    graph = case["graph"]
    redirects.validate(graph)
    if graph["origins"] != ORIGINS:
        raise core.InvalidCase
    if case["entry"] == "pool" and any(n.get("form", "abs") not in ("abs", "absport", "abscase", "path") for n in graph["nodes"]):
        raise core.InvalidCase  # a bare pool does not resolve relative references (PoolManager clause)
    hdrs = case.get("headers")
    if not isinstance(hdrs, list) or not hdrs or any(not (isinstance(p, list) and len(p) == 2 and all(isinstance(x, str) and x for x in p)) for p in hdrs):
        raise core.InvalidCase
    if any(not all(33 <= ord(c) < 127 and c not in ":()<>@,;\\\"/[]?={}" for c in p[0]) or any(c in p[1] for c in "\r\n\0") or p[1] != p[1].strip() for p in hdrs):
        raise core.InvalidCase
    lower_names = [p[0].lower() for p in hdrs]
    if case["mode"] in ("req-dict", "mgr", "both") and len({p[0] for p in hdrs}) != len(hdrs):
        raise core.InvalidCase  # identical keys collapse in a plain dict (two SPELLINGS of a name are two keys, two lines)
    if any(n in ("host", "content-length", "transfer-encoding", "connection", "accept-encoding") for n in lower_names):
        raise core.InvalidCase
    rm = case.get("rm")  # None = default, or list of names
    if rm is not None and not (isinstance(rm, list) and all(isinstance(x, str) for x in rm)):
        raise core.InvalidCase
    if case.get("rm_place") not in (None, "request", "manager"):
        raise core.InvalidCase
    if case["entry"] == "pool" and case["mode"] not in ("req-dict", "req-hd"):
        raise core.InvalidCase
    policy_set = DEFAULT_SET if rm is None else ({x.lower() for x in rm} | (DEFAULT_SET if case.get("rm_type") == "default-or" else set()))
    run = redirects.Run(graph, proxy=(case["entry"] == "proxy"))
    mgr_defaults = [["Authorization", "Basic bWdyOnNlY3JldA=="], ["X-Mgr", "m"]]
    fails: list[Failure] = []
    sig0 = {"entry": case["entry"], "mode": case["mode"]}
    result = exc = None
    with fakenet.Net(run.world):
        retry = None
        if rm is not None:
            rt = case.get("rm_type", "list")
            if rt not in ("list", "tuple", "set", "frozenset", "default-or"):
                raise core.InvalidCase
            rm_obj = {"list": list, "tuple": tuple, "set": set, "frozenset": frozenset}.get(rt, frozenset)(rm)
            if rt == "default-or":
                rm_obj = urllib3.Retry.DEFAULT_REMOVE_HEADERS_ON_REDIRECT | frozenset(rm)
            retry = urllib3.Retry(total=8, remove_headers_on_redirect=rm_obj)
        elif len(graph["nodes"]) > 3:
            retry = urllib3.Retry(total=8)  # default set, ample budget
        kw_mgr, kw_req = {}, {}
        if retry is not None:
            (kw_req if case.get("rm_place", "request") == "request" else kw_mgr)["retries"] = retry
        mode = case["mode"]
        req_obj = mgr_obj = None
        if mode in ("req-dict", "req-hd"):
            req_obj = _mk_headers(hdrs, "dict" if mode == "req-dict" else "hd")
            supplied = hdrs
        elif mode in ("mgr", "mgr-hd"):
            mgr_obj = _mk_headers(hdrs, "dict" if mode == "mgr" else "hd")
            supplied = hdrs
        else:
            req_obj = _mk_headers(hdrs, "dict")
            mgr_obj = _mk_headers(mgr_defaults, "dict")
            supplied = hdrs  # request headers completely replace the manager's
        if req_obj is not None:
            kw_req["headers"] = req_obj
        if mgr_obj is not None:
            kw_mgr["headers"] = mgr_obj
        snap_req = copy.deepcopy(list(req_obj.items())) if req_obj is not None else None
        snap_mgr = copy.deepcopy(list(mgr_obj.items())) if mgr_obj is not None else None
        if case["entry"] == "pm":
            obj = urllib3.PoolManager(ssl_context=run.ctx, **kw_mgr)
            url = run.start_url()
        elif case["entry"] == "proxy":
            obj = urllib3.ProxyManager("http://proxy.test:3128", ssl_context=run.ctx, **kw_mgr)
            url = run.start_url()
        else:
            o = graph["origins"][graph["nodes"][0]["o"]]
            obj = urllib3.HTTPConnectionPool(o[1], o[2], **kw_mgr)
            url = run.tg[0]
        try:
            result = obj.urlopen("GET", url, **kw_req)
        except BaseException as e:  # noqa: BLE001
            if type(e).__name__ == "CaseTimeout":
                raise
            exc = e
        after_req = list(req_obj.items()) if req_obj is not None else None
        after_mgr = list(mgr_obj.items()) if mgr_obj is not None else None
        mgr_headers_attr = list(obj.headers.items()) if getattr(obj, "headers", None) is not None else None
        try:
            obj.clear() if case["entry"] != "pool" else obj.close()
        except Exception:  # noqa: BLE001
            pass
    contacts = run.contacts()
    nodes = graph["nodes"]

    def brief():
        return (f"{ {k: v for k, v in case.items() if k not in ('kind', 'graph')} } chain={[(graph['origins'][n['o']][:], n['code'], n.get('form')) for n in nodes]} -> "
                f"{[(c['origin'], [h for h in c['headers'] if h[0] not in ('host', 'accept-encoding', 'accept')]) for c in contacts]} result {('status %d' % result.status) if result is not None else type(exc).__name__}")

    want = _joined(supplied)
    # ---- bare pool: cross-host redirect is refused
    if case["entry"] == "pool":
        o0 = redirects.okey(graph["origins"][nodes[0]["o"]])
        foreign = [c for c in contacts if c["origin"] != o0]
        chain_cross = _first_cross(graph)
        if foreign:
            fails.append(Failure("pool-host-changed", {**sig0, "what": "sent"}, f"a single-host pool sent a request to {foreign[0]['origin']}: {brief()}"))
        if chain_cross is not None and not isinstance(exc, ue.HostChangedError) and not foreign:
            # allowed endings before the cross hop is reached: none (budget 8 is ample)
            fails.append(Failure("pool-host-changed", {**sig0, "what": "no-error", "exc": type(exc).__name__ if exc else "none"}, f"expected HostChangedError: {brief()}"))
        return fails
    if run.world.violations:
        fails.append(Failure("wire", {**sig0, "what": run.world.violations[0][0]}, f"{run.world.violations[:2]}: {brief()}"))
    if exc is not None:
        fails.append(Failure("call-failed", {**sig0, "exc": type(exc).__name__}, f"{type(exc).__name__}: {exc}: {brief()}"))
        return fails
    crossed = False
    prev_origin = None
    for idx, c in enumerate(contacts):
        if prev_origin is not None and c["origin"] != prev_origin:
            crossed = True
        prev_origin = c["origin"]
        got = _joined([(k, v) for k, v in c["headers"]])
        if crossed:
            leaked = sorted(k for k in got if k in policy_set)
            if leaked:
                from_mgr = case["mode"] == "both" and any(got.get(k) == _joined(mgr_defaults).get(k) for k in leaked)
                fails.append(Failure("leak", {**sig0, "hop": "first-cross" if _is_first_cross(contacts, idx) else "later", "via": contacts[idx - 1]["node"] is not None and nodes[contacts[idx - 1]["node"]].get("form"), "from_mgr_defaults": from_mgr},
                                     f"hop {idx} to {c['origin']} carries {leaked} although the chain left the origin {contacts[0]['origin']} earlier: {brief()}"))
        for k, v in want.items():
            if k in policy_set and (crossed or idx > 0):
                continue  # stripping is allowed (not required) once a redirect was followed
            if got.get(k) != v:
                fails.append(Failure("preserve", {**sig0, "hop0": idx == 0, "sensitive": k in policy_set, "missing": k not in got}, f"hop {idx} has {k}: {got.get(k)!r}, the caller supplied {v!r}: {brief()}"))
        if case["mode"] == "both":
            extra = [k for k in got if k == "x-mgr"]
            if extra:
                fails.append(Failure("preserve", {**sig0, "what": "manager-defaults-mixed-in"}, f"hop {idx} carries manager default {extra} although the request supplied its own headers: {brief()}"))
    # ---- the caller's objects are unchanged
    if snap_req is not None and after_req != snap_req:
        fails.append(Failure("mutated", {**sig0, "what": "request-headers"}, f"request header object changed from {snap_req} to {after_req}: {brief()}"))
    if snap_mgr is not None and (after_mgr != snap_mgr or (mgr_headers_attr is not None and _joined(mgr_headers_attr) != _joined(snap_mgr))):
        fails.append(Failure("mutated", {**sig0, "what": "manager-headers"}, f"manager headers changed from {snap_mgr} to {after_mgr} / {mgr_headers_attr}: {brief()}"))
    return fails


def _first_cross(graph):
    nodes = graph["nodes"]
    i, seen = 0, set()
    while nodes[i]["code"] != 200 and i not in seen:
        seen.add(i)
        j = nodes[i]["next"]
        if redirects.okey(graph["origins"][nodes[j]["o"]]) != redirects.okey(graph["origins"][nodes[i]["o"]]):
            return j
        i = j
    return None


def _is_first_cross(contacts, idx):
    return all(contacts[k]["origin"] == contacts[0]["origin"] for k in range(idx))


def check_case(case):
    res, timed_out = core.guarded(run_case, case)
    if timed_out:
        return [Failure("terminates", {"entry": case.get("entry")}, f"{case}: the call did not return")]
    return res


def nontrivial(case):
    rm = case.get("rm")
    pset = DEFAULT_SET if rm is None else ({x.lower() for x in rm} | (DEFAULT_SET if case.get("rm_type") == "default-or" else set()))
    return any(p[0].lower() in pset for p in case["headers"]) and _first_cross(case["graph"]) is not None


def classes(case):
    out = ["entry:" + case["entry"], "mode:" + case["mode"], "rm:" + ("default" if case.get("rm") is None else ("empty" if not case["rm"] else "custom"))]
    nodes = case["graph"]["nodes"]
    for n in nodes:
        if n["code"] != 200:
            out.append("form:" + n["form"])
            a, b = case["graph"]["origins"][n["o"]], case["graph"]["origins"][nodes[n["next"]]["o"]]
            out.append("hop:" + ("same" if a == b else "+".join(x for x, d in (("scheme", a[0] != b[0]), ("host", a[1] != b[1]), ("port", a[2] != b[2])) if d)))
    if all(p[0].lower() in DEFAULT_SET for p in case["headers"]):
        out.append("credentials-only")
    return out


# --------------------------------------------------------------------------- generation


def chain(hops):
    """hops = [(from origin, code, form, to origin)] then a final 200."""
    nodes = [{"o": a, "code": code, "next": i + 1, "form": form} for i, (a, code, form, b) in enumerate(hops)]
    nodes.append({"o": hops[-1][3], "code": 200})
    return {"origins": ORIGINS, "nodes": nodes}


def forms_for(a, b):
    fs = ["abs", "absport", "abscase"]
    if ORIGINS[a][0] == ORIGINS[b][0]:
        fs.append("netpath")
    if a == b:
        fs += ["path", "rel", "dotdot", "query"]
    return fs


SHAPES = [
    lambda x: [0, x], lambda x: [0, x, 0], lambda x: [0, x, x], lambda x: [0, 0, x], lambda x: [0, x, x, 0], lambda x: [0, 0, x, x, 0],
]


def enum_cases(tier):
    k = 0
    namesets = [[s] for s in SENSITIVE] + [SENSITIVE]
    for shape in SHAPES:
        for x in (1, 2, 3):
            os_ = shape(x)
            for codes in ((302,), (301,), (303,), (307,), (308,)):
                for names in namesets:
                    for mode in MODES:
                        for entry in ("pm", "proxy"):
                            for nbenign in (0, 2):
                                for case_bits in (0, 0b1010101010101, 0xFFFFF):
                                    k += 1
                                    if tier == "quick" and (k % 3):
                                        continue
                                    hops = []
                                    for i in range(len(os_) - 1):
                                        fs = forms_for(os_[i], os_[i + 1])
                                        hops.append((os_[i], codes[0], fs[(k + i) % len(fs)], os_[i + 1]))
                                    hdrs = [[casing(n, case_bits), "secret-%d" % i] for i, n in enumerate(names)] + BENIGN[:nbenign]
                                    yield {"kind": "cred", "entry": entry, "graph": chain(hops), "mode": mode, "headers": hdrs, "rm": None, "rm_place": None}
    # chains that START at the https origin (through a ProxyManager: a CONNECT tunnel first, then forwarding), incl. credentials-only header sets
    for os_ in ([3, 0], [3, 1], [3, 2], [3, 3, 0], [3, 1, 3], [3, 0, 1]):
        for code in (302, 303, 307):
            for names in namesets:
                for mode in MODES:
                    for entry in ("pm", "proxy"):
                        for nbenign in (0, 1):
                            k += 1
                            hops = []
                            for i in range(len(os_) - 1):
                                fs = forms_for(os_[i], os_[i + 1])
                                hops.append((os_[i], code, fs[(k + i) % len(fs)], os_[i + 1]))
                            hdrs = [[casing(n, (0, 0xFFFFF, 0b1010101)[k % 3]), "secret-%d" % i] for i, n in enumerate(names)] + BENIGN[:nbenign]
                            yield {"kind": "cred", "entry": entry, "graph": chain(hops), "mode": mode, "headers": hdrs, "rm": None, "rm_place": None}
    # the same sensitive field under two spellings (two keys of a plain dict, two lines of an HTTPHeaderDict)
    for x in (1, 2, 3):
        for name in SENSITIVE:
            for mode in MODES:
                for entry in ("pm", "proxy"):
                    for code in (302, 307):
                        k += 1
                        hdrs = [[name, "secret-1"], [name.lower() if name.lower() != name else name.upper(), "secret-2"]] + BENIGN[: k % 2]
                        yield {"kind": "cred", "entry": entry, "graph": chain([(0, code, "abs", x), (x, code, "path", x)]), "mode": mode, "headers": hdrs, "rm": None, "rm_place": None}
    # custom / empty remove_headers_on_redirect
    for rm in ([], ["X-Secret"], ["x-secret", "Authorization"], ["COOKIE"], ["Cookie", "Authorization", "X-SECRET"]):
        for place in ("request", "manager"):
            for entry in ("pm", "proxy"):
                for mode in ("req-dict", "req-hd", "mgr"):
                    for x in (1, 2, 3):
                        hdrs = [["Authorization", "a"], ["X-Secret", "s"], ["Cookie", "c=1"], ["X-Keep", "1"]]
                        for rt in ("list", "frozenset", "set", "tuple", "default-or"):
                            yield {"kind": "cred", "entry": entry, "graph": chain([(0, 302, "abs", x), (x, 307, "path", x)]), "mode": mode, "headers": hdrs, "rm": rm, "rm_place": place, "rm_type": rt}
    # bare pool
    for x in (1, 2, 3):
        for code in redirects.CODES:
            for form in ("abs", "absport"):
                for mode in ("req-dict", "req-hd"):
                    yield {"kind": "cred", "entry": "pool", "graph": chain([(0, code, form, x)]), "mode": mode, "headers": [["Authorization", "a"], ["X-Keep", "1"]], "rm": None, "rm_place": None}
                    yield {"kind": "cred", "entry": "pool", "graph": chain([(0, code, "path", 0), (0, code, form, x)]), "mode": mode, "headers": [["Cookie", "a"]], "rm": None, "rm_place": None}


def _hyp():
    from hypothesis import strategies as st

    @st.composite
    def case(draw):
        entry = draw(st.sampled_from(["pm", "pm", "proxy"]))
        n = draw(st.integers(1, 5))
        os_ = [draw(st.sampled_from([0, 0, 3, 1]))] + [draw(st.integers(0, 3)) for _ in range(n)]
        hops = []
        for i in range(n):
            hops.append((os_[i], draw(st.sampled_from(redirects.CODES)), draw(st.sampled_from(forms_for(os_[i], os_[i + 1]))), os_[i + 1]))
        names = draw(st.lists(st.sampled_from(SENSITIVE + ["X-Secret"]), min_size=1, max_size=3, unique=True))
        mode = draw(st.sampled_from(MODES))
        hdrs = [[casing(nm, draw(st.integers(0, 2**19))), "v%d" % i] for i, nm in enumerate(names)]
        if draw(st.booleans()):
            again = casing(names[0], draw(st.integers(0, 2**19)))
            # repeated field in another casing; in a plain dict two spellings are two keys (an identical spelling would collapse)
            if mode in ("req-hd", "mgr-hd") or again != hdrs[0][0]:
                hdrs.append([again, "again"])
        hdrs += draw(st.lists(st.sampled_from(BENIGN), max_size=3, unique_by=lambda p: p[0]))
        order = draw(st.permutations(list(range(len(hdrs)))))
        hdrs = [hdrs[i] for i in order]
        rm = draw(st.sampled_from([None, None, None, [], ["X-Secret"], ["x-SECRET", "Cookie"], ["Authorization"]]))
        return {"kind": "cred", "entry": entry, "graph": chain(hops), "mode": mode, "headers": hdrs, "rm": rm, "rm_place": draw(st.sampled_from(["request", "manager"])) if rm is not None else None,
                "rm_type": draw(st.sampled_from(["list", "tuple", "set", "frozenset", "default-or"]))}

    return case()


def shards(tier, seed):
    total = sum(1 for _ in enum_cases(tier))
    out = [{"part": "enum", "tier": tier, "lo": a, "hi": b} for a, b in core.split_range(total, 32 if tier == "quick" else 96)]
    n = _scale(8000 if tier == "quick" else 200000)
    nsh = 16 if tier == "quick" else 48
    for i in range(nsh):
        out.append({"part": "random", "n": n // nsh, "seed": core.derive_seed(seed, "r", i)})
    return out


def run_shard(spec):
    col = core.Collector()
    if spec["part"] == "enum":
        for i, case in enumerate(enum_cases(spec["tier"])):
            if spec["lo"] <= i < spec["hi"]:
                try:
                    col.case(case, nontrivial(case), classes(case), check_case(case), distinct_by_construction=True)
                except core.InvalidCase:
                    col.note("invalid_generated")
    else:

        def body(case):
            try:
                col.case(case, nontrivial(case), classes(case), check_case(case))
            except core.InvalidCase:
                col.note("invalid_generated")

        core.hyp_run(_hyp(), spec["n"], spec["seed"], body)
    return col


def presets():
    return [
        {"kind": "cred", "entry": "pm", "graph": chain([(0, 302, "netpath", 1)]), "mode": "req-dict", "headers": [["Authorization", "a"]], "rm": None, "rm_place": None},
        {"kind": "cred", "entry": "pm", "graph": chain([(0, 302, "abs", 1)]), "mode": "mgr", "headers": [["authorization", "a"]], "rm": None, "rm_place": None},
        {"kind": "cred", "entry": "pm", "graph": chain([(0, 302, "abs", 1)]), "mode": "both", "headers": [["COOKIE", "a"]], "rm": None, "rm_place": None},
        {"kind": "cred", "entry": "proxy", "graph": chain([(0, 307, "abs", 3), (3, 302, "path", 3)]), "mode": "req-hd", "headers": [["Authorization", "a"], ["authorization", "b"], ["X-Keep", "1"]], "rm": None, "rm_place": None},
    ]


def min_nontrivial(tier):
    return 2000
