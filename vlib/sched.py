"""H4: an owned scheduler for real threads running real urllib3 code.

Logical threads are real `threading.Thread`s, but exactly one holds the baton.  A thread gives the
scheduler a chance to switch at *yield points*:
  * every `line` event (optionally every `opcode` event) of the traced functions - selected by file
    suffix and function name, never by line number;
  * every operation of the cooperative primitives (CoopLifoQueue, CoopRLock) that replace the blocking
    ones through urllib3's own hooks (`ConnectionPool.QueueCls`, the name `RLock` in `urllib3._collections`).
A *schedule* is the list of decisions that differ from the default (keep running the current thread;
when it cannot continue, resume the runnable thread with the lowest id); everything else is
deterministic because the network is in memory, so a schedule replays exactly.

Blocking is virtual: a thread blocked in `queue.get(timeout=x)` times out only when no thread is
runnable; if then nobody can time out either, that is a deadlock (reported, threads are aborted).
"""
from __future__ import annotations

import collections
import queue
import sys
import threading
import typing

_current: "Scheduler | None" = None


class SchedAbort(BaseException):
    """Raised inside logical threads to unwind them after a deadlock / runaway."""


class HarnessTimeout(Exception):
    pass


class LThread:
    def __init__(self, tid: int, name: str, fn: typing.Callable[[], typing.Any]):
        self.tid, self.name, self.fn = tid, name, fn
        self.ev = threading.Event()
        self.state = "runnable"  # runnable | blocked | done
        self.block_on: typing.Any = None
        self.timeout: float | None = None
        self.woken_by: str | None = None
        self.result: typing.Any = None
        self.exc: BaseException | None = None
        self.aborted = False
        self.real: threading.Thread | None = None
        self.ops: list = []  # (label, start_point, end_point, result) recorded by the property

    def __repr__(self):
        return f"<T{self.tid} {self.name} {self.state}>"


class Scheduler:
    def __init__(self, decisions: dict | None = None, random_seq: typing.Sequence[int] | None = None, targets: typing.Iterable = (), opcode_targets: typing.Iterable = (), max_points: int = 60000, preempt_every: int = 7):
        self.threads: list[LThread] = []
        self.by_ident: dict[int, LThread] = {}
        self.decisions = dict(decisions or {})  # point index -> tid
        self.random_seq = list(random_seq) if random_seq is not None else None
        self._rpos = 0
        self.preempt_every = preempt_every
        self.targets = {tuple(t) for t in targets}
        self.opcode_targets = {tuple(t) for t in opcode_targets}
        self.points = 0
        self.max_points = max_points
        self.log: list = []  # per point: (index, tid running, where, [runnable tids])
        self.taken: list = []  # non-default decisions actually taken: (index, from tid, to tid, where, preemptive)
        self.deadlock: list | None = None
        self.runaway = False
        self.aborting = False
        self.all_done = threading.Event()
        self.func_events: collections.Counter = collections.Counter()
        self.keep_log = True

    # ------------------------------------------------------------------ threads
    def spawn(self, name: str, fn: typing.Callable[[], typing.Any]) -> LThread:
        t = LThread(len(self.threads), name, fn)
        self.threads.append(t)
        return t

    def me(self) -> LThread | None:
        return self.by_ident.get(threading.get_ident())

    def run(self, wall_timeout: float = 30.0) -> None:
        global _current
        _current = self
        try:
            for t in self.threads:
                t.real = threading.Thread(target=self._body, args=(t,), name=f"sched-{t.name}", daemon=True)
                t.real.start()
            first = self._choose(None, [t for t in self.threads if t.state == "runnable"], "start")
            first.ev.set()
            if not self.all_done.wait(wall_timeout):
                self.aborting = True
                for t in self.threads:
                    t.ev.set()
                raise HarnessTimeout(f"schedule did not finish within {wall_timeout}s wall clock: {self.threads}")
            for t in self.threads:
                t.real.join(5.0)
        finally:
            _current = None

    def _body(self, t: LThread) -> None:
        self.by_ident[threading.get_ident()] = t
        t.ev.wait()
        try:
            if self.aborting:
                raise SchedAbort()
            sys.settrace(self._global_trace)
            try:
                t.result = t.fn()
            finally:
                sys.settrace(None)
        except SchedAbort:
            t.aborted = True
        except BaseException as e:  # noqa: BLE001 - reported by the property
            e.__traceback__ = None
            t.exc = e
        finally:
            t.state = "done"
            self._switch(t, "exit")

    # ------------------------------------------------------------------ tracing
    def _match(self, code) -> str | None:
        fn = code.co_filename
        for suffix, name in self.targets:
            if code.co_name == name and fn.endswith(suffix):
                return "line"
        return None

    def _global_trace(self, frame, event, arg):
        if event != "call":
            return None
        code = frame.f_code
        key = None
        for suffix, name in self.targets:
            if code.co_name == name and code.co_filename.endswith(suffix):
                key = (suffix, name)
                break
        if key is None:
            return None
        if key in self.opcode_targets:
            frame.f_trace_opcodes = True
        self.func_events[key[1]] += 1
        return self._local_trace

    def _local_trace(self, frame, event, arg):
        if event == "line" or event == "opcode":
            self.yield_point((frame.f_code.co_name, frame.f_lineno if event == "line" else ("op", frame.f_lasti)))
        return self._local_trace

    # ------------------------------------------------------------------ switching
    def yield_point(self, where) -> None:
        me = self.me()
        if me is None:
            return
        if self.aborting:
            raise SchedAbort()
        self._switch(me, where)

    def _choose(self, me: LThread | None, runnable: list, where) -> LThread:
        idx = self.points
        self.points += 1
        default = me if (me is not None and me.state == "runnable") else min(runnable, key=lambda t: t.tid)
        chosen = default
        if len(runnable) > 1:
            if idx in self.decisions:
                want = self.decisions[idx]
                for t in runnable:
                    if t.tid == want:
                        chosen = t
                        break
            elif self.random_seq is not None and self._rpos < len(self.random_seq):
                r = self.random_seq[self._rpos]
                self._rpos += 1
                forced = me is None or me.state != "runnable"
                if forced or r % self.preempt_every == 0:
                    others = [t for t in runnable if t is not default] if not forced else runnable
                    chosen = others[(r // self.preempt_every) % len(others)]
        if self.keep_log:
            self.log.append((idx, me.tid if me else None, where, [t.tid for t in runnable]))
        if chosen is not default:
            self.taken.append((idx, me.tid if me else None, chosen.tid, where, me is not None and me.state == "runnable"))
        return chosen

    def _switch(self, me: LThread, where) -> None:
        if self.points > self.max_points and not self.aborting:
            self.runaway = True
            self._abort_all()
        runnable = [t for t in self.threads if t.state == "runnable"]
        if not runnable:
            blocked = [t for t in self.threads if t.state == "blocked"]
            if not blocked:
                self.all_done.set()
                return
            timed = [t for t in blocked if t.timeout is not None]
            if timed and not self.aborting:
                t = min(timed, key=lambda x: (x.timeout, x.tid))
                self._wake(t, "timeout")
            else:
                if not self.aborting:
                    self.deadlock = [(t.name, t.block_on) for t in blocked]
                self._abort_all()
            runnable = [t for t in self.threads if t.state == "runnable"]
            if not runnable:
                self.all_done.set()
                return
        nxt = self._choose(me, runnable, where)
        if nxt is me:
            return
        me.ev.clear()
        nxt.ev.set()
        if me.state == "done":
            return
        me.ev.wait()
        if self.aborting:
            raise SchedAbort()

    def _abort_all(self) -> None:
        self.aborting = True
        for t in self.threads:
            if t.state == "blocked":
                self._wake(t, "abort")

    def _wake(self, t: LThread, reason: str) -> None:
        t.state, t.woken_by, t.block_on, t.timeout = "runnable", reason, None, None

    # ------------------------------------------------------------------ blocking primitives support
    def block(self, me: LThread, on, timeout: float | None = None) -> str:
        me.state, me.block_on, me.timeout, me.woken_by = "blocked", on, timeout, None
        self._switch(me, ("block", on[0]))
        if self.aborting:
            raise SchedAbort()
        return me.woken_by or "notify"

    def wake_all(self, on) -> None:
        for t in self.threads:
            if t.state == "blocked" and t.block_on == on:
                self._wake(t, "notify")


def current() -> Scheduler | None:
    return _current


class CoopLifoQueue(queue.LifoQueue):
    """queue.LifoQueue whose blocking get() parks the logical thread in the scheduler."""

    def get(self, block=True, timeout=None):
        s = _current
        me = s.me() if s is not None else None
        if me is None:
            return super().get(block=False) if not block else super().get(block, timeout)
        s.yield_point(("queue.get", 0))
        while True:
            try:
                return super().get(block=False)
            except queue.Empty:
                if not block:
                    raise
                if s.block(me, ("queue", id(self)), timeout if timeout is not None else None) == "timeout":
                    raise queue.Empty from None

    def put(self, item, block=True, timeout=None):
        s = _current
        me = s.me() if s is not None else None
        if me is None:
            return super().put(item, block=False) if not block else super().put(item, block, timeout)
        s.yield_point(("queue.put", 0))
        super().put(item, block=False)
        s.wake_all(("queue", id(self)))


class CoopRLock:
    """Re-entrant lock whose contention is visible to (and resolved by) the scheduler."""

    def __init__(self):
        self.owner = None
        self.count = 0
        self.acquisitions = 0

    def acquire(self, blocking=True, timeout=-1):
        s = _current
        me = s.me() if s is not None else None
        who = me if me is not None else "outside"
        if me is not None:
            s.yield_point(("lock.acquire", 0))
            while self.owner is not None and self.owner is not who:
                if not blocking:
                    return False
                s.block(me, ("lock", id(self)))
        self.owner = who
        self.count += 1
        self.acquisitions += 1
        return True

    def release(self):
        if self.count <= 0:
            raise RuntimeError("cannot release un-acquired lock")
        self.count -= 1
        s = _current
        if self.count == 0:
            self.owner = None
            if s is not None:
                s.wake_all(("lock", id(self)))
        if s is not None and s.me() is not None:
            s.yield_point(("lock.release", 0))

    def held_by_me(self) -> bool:
        s = _current
        me = s.me() if s is not None else None
        return self.count > 0 and self.owner is (me if me is not None else "outside")

    def __enter__(self):
        self.acquire()
        return self

    def __exit__(self, *a):
        self.release()


# ---------------------------------------------------------------------- exploration helpers


def explore(make_run: typing.Callable[[dict | None, typing.Sequence[int] | None], tuple], bound: int, max_runs: int = 100000, skip: typing.Callable[[typing.Any], bool] | None = None):
    """Iterative context bounding.  make_run(decisions, None) -> (scheduler, verdict).  Yields (decisions, scheduler, verdict)
    for the default schedule and for every schedule with at most `bound` preemptions (a preemption = switching away
    from a thread that could have continued; the choice of whom to resume after a block/exit is explored too and is free)."""
    runs = 0
    frontier = [({}, 0, -1)]  # (decisions, preemptions used, last decided index)
    while frontier:
        decisions, used, last = frontier.pop()
        s, verdict = make_run(decisions, None)
        runs += 1
        yield decisions, s, verdict
        if runs >= max_runs:
            return
        for idx, running, where, runnable in s.log:
            if idx <= last or len(runnable) < 2:
                continue
            forced = running is None or running not in runnable
            default = running if not forced else min(runnable)
            for tid in runnable:
                if tid == default:
                    continue
                cost = 0 if forced else 1
                if used + cost > bound:
                    continue
                d = dict(decisions)
                d[idx] = tid
                frontier.append((d, used + cost, idx))
