#!/bin/bash
# usage: tools/intake.sh Cxx A|B [props-to-check...]
# Confirms a sub-agent's seeded change in a scratch worktree of /repo: patch applies, demo fails with it and
# passes without it, pinned suite still OK; then runs our quick check(s) against the patched sources.
# Writes /verif/seeded/<Cxx>-<A|B>/{patch.diff,demo.py,notes.md,meta.json}.
set -u
prop="$1"; v="$2"; shift 2
checks=("$@"); [ ${#checks[@]} -eq 0 ] && checks=("$prop")
src="/tmp/wt/$prop/OUT/$v"
id="$prop-$v"
wt="/tmp/intake.$id"
here="$(cd "$(dirname "$0")/.." && pwd)"
out="$here/seeded/$id"
mkdir -p "$out"
cp "$src/patch.diff" "$src/demo.py" "$out/" ; cp "$src/notes.md" "$out/notes.md" 2>/dev/null
git -C /repo worktree remove --force "$wt" 2>/dev/null; rm -rf "$wt"
git -C /repo worktree add -q --detach "$wt" HEAD || exit 3
cp /repo/src/urllib3/_version.py "$wt/src/urllib3/_version.py"
clean_rc=0; PYTHONPATH="$wt/src" timeout 300 /venv/bin/python "$out/demo.py" > "$out/.demo_clean.txt" 2>&1 || clean_rc=$?
if ! git -C "$wt" apply "$out/patch.diff" 2>/dev/null && ! (cd "$wt" && patch -s -p1 -F3 --no-backup-if-mismatch < "$out/patch.diff"); then echo "PATCH DOES NOT APPLY"; git -C /repo worktree remove --force "$wt"; exit 3; fi
git -C "$wt" diff -- src > "$out/patch.diff"
pat_rc=0; PYTHONPATH="$wt/src" timeout 300 /venv/bin/python "$out/demo.py" > "$out/.demo_patched.txt" 2>&1 || pat_rc=$?
suite="$("$here/tools/run_pinned.sh" "$wt" | tail -3 | tr '\n' ' ')"
declare -A res
for c in "${checks[@]}"; do
  o="$(VERIF_REPO_SRC="$wt/src" "$here/check" "$c" --tier quick --no-evidence 2>&1)"; rc=$?
  res[$c]="$rc"
  echo "$o" | grep -A2 -m3 '^VIOLATION' > "$out/.check_$c.txt"; echo "$o" | tail -1 >> "$out/.check_$c.txt"
done
git -C /repo worktree remove --force "$wt"; rm -rf "$wt"
python3 - "$out" "$prop" "$v" "$clean_rc" "$pat_rc" "$suite" "$(for c in "${checks[@]}"; do echo -n "$c=${res[$c]} "; done)" <<'PY'
import json, sys, os
out, prop, v, clean_rc, pat_rc, suite, res = sys.argv[1:8]
checks = dict(x.split("=") for x in res.split())
notes = open(os.path.join(out, "notes.md")).read() if os.path.exists(os.path.join(out, "notes.md")) else ""
meta = {
    "id": f"{prop}-{v}", "breaks_property": prop, "origin": "independent sub-agent given only the property text and a scratch worktree",
    "needs_to_manifest": "see notes.md",
    "confirmed": {"demo_exit_clean_tree": int(clean_rc), "demo_exit_patched_tree": int(pat_rc), "pinned_suite_with_patch": suite.strip()},
    "ran": ["tools/intake.sh %s %s" % (prop, v)],
    "our_checks_quick": {c: ("DETECTED" if rc == "1" else "MISSED" if rc == "0" else "HARNESS-ERROR") for c, rc in checks.items()},
    "first_violation": {c: open(os.path.join(out, f".check_{c}.txt")).read()[:700] for c in checks},
}
ok = int(clean_rc) == 0 and int(pat_rc) != 0 and "PINNED SUITE OK" in suite
meta["valid_seed"] = ok
json.dump(meta, open(os.path.join(out, "meta.json"), "w"), indent=1)
print(json.dumps({k: meta[k] for k in ("id", "valid_seed", "confirmed", "our_checks_quick")}))
PY
rm -f "$out"/.demo_*.txt "$out"/.check_*.txt
