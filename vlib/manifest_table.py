"""Source of truth for MANIFEST.json (run: python -m vlib.mkmanifest)."""

REPO_FIX_COMMITS = ["04f98b2", "9ce180e", "cfc2ed2", "1d8dc7e", "8ef3efb", "a7c5d9c", "2fb9873", "812fbc2"]

CHECKS = {
    "C14": {
        "technique": "bounded-exhaustive string enumeration + Hypothesis grammar/unicode generation; oracles: totality, normal-form predicates, idempotence round-trip, differential against an independent RFC 3986 splitter, CPU-time scaling",
        "text": "Every string up to length 5 (quick) / 6 (thorough) over a 13-symbol delimiter alphabet, bare and behind 'http://', plus tens of thousands of grammar-built hostile URLs and unicode strings, are parsed and compared with an independent reading; running time is measured on 26 repetition shapes up to 1e5 characters. Exploration: absence is shown only inside those bounds.",
        "note": "Trusts vlib/refurl.py (independent splitter), the idna package, CPython re; time clause uses CPU time with an absolute-and-relative threshold.",
        "design_ref": "DESIGN.md section 4, C14",
    },
}

_PENDING = "check not built yet in this revision (planned in DESIGN.md section 4); not claimed until it is"
NOT_APPLICABLE = {f"C{i:02d}": _PENDING for i in range(1, 21) if f"C{i:02d}" not in CHECKS}
