"""C12 - every way of reading a response yields the same bytes."""
from __future__ import annotations

import itertools
import os

from vlib import core, fakenet, respgen
from vlib.core import Failure

PROP = "C12"
RULE = (
    "a case is (payload size/pattern, coding stack + member count, framing with chunk-size vector/extension, network "
    "segmentation, explicit decode_content, call sequence over {read(), read(n), read1(n), read1(), readinto(k), "
    "read(0)}, draining tail from {read(), read(n) loop, read1(n) loop, readinto loop, stream(amt), read_chunked(amt), "
    "iteration, preloaded .data}). (a) exhaustive: all sequences of <= L calls (L=2 quick, 3 thorough) from a 12-call "
    "alphabet x 9 tails x 4 codings x 3 framings x bodies of 0/1/5/8 bytes, 1-byte segments (distinct by "
    "construction); (b) Hypothesis: sizes up to 200 000, multi-member gzip / multi-frame zstd, two-coding stacks, "
    "sequences <= 6. On a chunked response one reader family is kept (see KF-C12-mix). Non-trivial = at least two "
    "different APIs were used, or a chunk / member / frame / segment boundary fell inside a read."
)
ASSUMPTIONS = [
    "bodies are produced by stdlib zlib / zstandard compressors (independent of urllib3's decoders) and served through the real http.client over the in-memory socket",
    "decode_content is passed explicitly and constant per response; iteration (which hard-codes decoding) is used only with decoding on",
    "on chunked responses the generator never mixes the http.client-based readers with the raw chunk parser (known finding KF-C12-mix, excluded by construction and counted)",
]
EXHAUSTIVE = {"quick": False, "thorough": False}

CODINGS = [[], ["gzip"], ["deflate"], ["deflate-raw"], ["zstd"], ["x-gzip"]]
STACKS = [["gzip", "zstd"], ["zstd", "gzip"], ["deflate", "gzip"], ["gzip", "gzip"], ["zstd", "deflate-raw"], ["gzip", "identity"],
          ["x-gzip", "deflate"], ["deflate", "x-gzip"], ["x-gzip", "zstd"]]  # alias spelling inside a stack (seed C12-H)
EX_OPS = [["read", None], ["read", 0], ["read", 1], ["read", 2], ["read", 3], ["read", 7], ["read1", None], ["read1", 1], ["read1", 2], ["read1", 7], ["readinto", 1], ["readinto", 3]]
EX_TAILS = [["read", None], ["readloop", 1], ["readloop", 3], ["read1loop", 2], ["readintoloop", 2], ["stream", 1], ["stream", None], ["read_chunked", 2], ["iter", None]]


def _scale(n):
    return max(1, int(n * float(os.environ.get("VERIF_SCALE", "1"))))


def valid(case) -> bool:
    tail = case["tail"]
    if tail[0] == "read_chunked" and case["framing"] != "chunked":
        return False
    if tail[0] == "iter" and not case["decode"]:
        return False
    if tail[0] == "data" and case.get("via") not in ("pool-preload", "pool-retry-preload"):
        return False
    if case.get("via") in ("pool-preload", "pool-retry-preload") and (case["ops"] or tail[0] != "data"):
        return False
    return True


def run_case(case) -> list[Failure]:
    import urllib3
    from urllib3.connection import HTTPConnection

    if not valid(case):
        raise core.InvalidCase
    for api, arg in case["ops"]:
        if api == "rc_refused":
            if case["framing"] == "chunked" or arg is not None:
                raise core.InvalidCase
            continue
        if api not in ("read", "read1", "readinto") or (arg is not None and (not isinstance(arg, int) or arg < 0)) or (api == "readinto" and not arg):
            raise core.InvalidCase
    mixed = case["framing"] == "chunked" and respgen.families(case) == {"A", "B"}
    if mixed and not case.get("allow_mix"):
        raise core.InvalidCase
    payload = respgen.payload_bytes(case["n"], case.get("pat", 0))
    content = respgen.encode(payload, case.get("coding", []), case.get("members", 1))
    head, body = respgen.frame(content, case)
    decode = bool(case["decode"])
    expected = payload if decode else content
    if (case.get("cl_list") and case["framing"] != "cl") or case.get("hexfmt", "x") not in ("x", "X", "04x"):
        raise core.InvalidCase
    # (http.client cannot parse "N, N" and reads such a body until the server closes, so the server closes)
    srv = respgen.OneShot(head + body, case.get("seg"), eof=(case["framing"] == "close" or bool(case.get("cl_list"))), drop_first=str(case.get("via", "")).startswith("pool-retry"))
    sig = {"framing": case["framing"], "coded": bool([c for c in case.get("coding", []) if c != "identity"]), "decode": decode}
    if mixed:
        sig["mixed_families"] = True
    fails: list[Failure] = []
    with fakenet.Net(srv):
        via = case.get("via", "conn")
        pool = None
        if via == "conn":
            conn = HTTPConnection("h.test", 80)
            conn.request("GET", "/", preload_content=False, decode_content=decode)
            resp = conn.getresponse()
        else:
            if via not in ("pool", "pool-preload", "pool-retry", "pool-retry-preload"):
                raise core.InvalidCase
            # pool-retry*: the first connection is closed by the server without a reply; the response read is that of the re-sent request
            pool = urllib3.HTTPConnectionPool("h.test", 80, retries=(1 if via.startswith("pool-retry") else False))
            try:
                resp = pool.urlopen("GET", "/", preload_content=via.endswith("preload"), decode_content=decode)
            except BaseException as e:  # noqa: BLE001
                return [Failure("valid-data-error", {**sig, "api": "preload", "exc": type(e).__name__}, f"{_brief(case)}: urlopen raised {type(e).__name__}: {e}")]
        try:
            pieces, err = respgen.consume(resp, case["ops"], case["tail"], decode, len(expected))
            if err is not None:
                api = (pieces[-1][0] if pieces else "first")
                fails.append(Failure("valid-data-error", {**sig, "exc": type(err).__name__, "tail": case["tail"][0]}, f"{_brief(case)}: {type(err).__name__}: {err} after {len(pieces)} pieces"))
                return fails
            got = b"".join(p[2] for p in pieces)
            if got != expected:
                kind = "lost" if len(got) < len(expected) else ("extra" if len(got) > len(expected) else "reordered")
                if kind == "lost" and not expected.startswith(got):
                    kind = "reordered"
                fails.append(Failure("same-bytes", {**sig, "kind": kind, "tail": case["tail"][0]}, f"{_brief(case)}: pieces give {len(got)} bytes, expected {len(expected)}; first difference at {_firstdiff(got, expected)}; apis {[(a, b, len(c)) for a, b, c in pieces][:12]}"))
            total = 0
            for api, arg, data in pieces:
                total += len(data)
                if api in ("read", "read1", "readinto") and arg is not None:
                    if len(data) > arg:
                        fails.append(Failure("at-most-n", {**sig, "api": api}, f"{_brief(case)}: {api}({arg}) returned {len(data)} bytes"))
                    if api in ("read", "readinto") and arg and len(data) < arg and total < len(expected) and got == expected:
                        fails.append(Failure("short-read", {**sig, "api": api}, f"{_brief(case)}: {api}({arg}) returned {len(data)} bytes with {len(expected) - total} still to come"))
                if api in ("stream", "read_chunked", "iter") and not data:
                    fails.append(Failure("empty-piece", {**sig, "api": api}, f"{_brief(case)}: {api} yielded an empty piece"))
            # after the end everything returns b""
            if not fails:
                try:
                    tails = [resp.read(decode_content=decode), resp.read(3, decode_content=decode)]
                    if case["tail"][0] not in ("data",):
                        tails.append(resp.read1(3, decode_content=decode))
                    if any(tails):
                        fails.append(Failure("after-end", sig, f"{_brief(case)}: reads after the end returned {tails!r}"))
                except BaseException as e:  # noqa: BLE001
                    fails.append(Failure("after-end", {**sig, "exc": type(e).__name__}, f"{_brief(case)}: read after the end raised {type(e).__name__}: {e}"))
        finally:
            try:
                resp.close()
                if pool is not None:
                    pool.close()
            except Exception:  # noqa: BLE001
                pass
    return fails


def _firstdiff(a, b):
    for i, (x, y) in enumerate(zip(a, b)):
        if x != y:
            return i
    return min(len(a), len(b))


def _brief(case):
    return {k: v for k, v in case.items() if k not in ("kind",)}


def check_case(case):
    if case.get("kind") != "read":
        raise core.InvalidCase
    return run_case(case)


_run_case_inner = run_case


def run_case(case):  # noqa: F811 - watchdog wrapper
    res, timed_out = core.guarded(_run_case_inner, case)
    if timed_out:
        return [Failure("terminates", {"framing": case["framing"], "tail": case["tail"][0]}, f"{_brief(case)}: reading did not finish within the watchdog limit")]
    return res


def nontrivial(case):
    apis = {a for a, _ in case["ops"]} | {case["tail"][0]}
    if len(apis) >= 2:
        return True
    return case["n"] > 1 and (case.get("seg") or case.get("members", 1) > 1 or (case["framing"] == "chunked" and case.get("chunk_sizes")))


def classes(case):
    out = ["framing:" + case["framing"], "coding:" + ("+".join(case.get("coding", [])) or "identity"), "tail:" + case["tail"][0], "decode:" + str(case["decode"]), "via:" + case.get("via", "conn")]
    if case.get("members", 1) > 1:
        out.append("multi-member")
    if case["n"] > 65536:
        out.append("size>64k")
    for a, _ in case["ops"]:
        out.append("op:" + a)
    return out


def mk(n, pat, coding, members, framing, chunk_sizes, ext, seg, decode, ops, tail, via="conn"):
    return {"kind": "read", "n": n, "pat": pat, "coding": coding, "members": members, "framing": framing, "chunk_sizes": chunk_sizes, "ext": ext, "seg": seg, "decode": decode, "ops": ops, "tail": tail, "via": via}


def ex_cases(L):
    for coding in ([], ["gzip"], ["deflate"], ["zstd"]):
        for framing in ("cl", "chunked", "close"):
            for n in (0, 1, 5, 8):
                for tail in EX_TAILS:
                    for k in range(0, L + 1):
                        for ops in itertools.product(EX_OPS, repeat=k):
                            case = mk(n, 0, coding, 1, framing, [3] if framing == "chunked" else [], False, 1, True, [list(o) for o in ops], list(tail))
                            yield case


def _hyp():
    from hypothesis import strategies as st

    sizes = st.one_of(st.integers(0, 300), st.sampled_from([0, 1, 2, 65535, 65536, 65537, 200000, 1000, 4096, 8192, 8193]))
    nvals = st.sampled_from([1, 2, 3, 7, 64, 1000])
    op = st.one_of(
        st.tuples(st.just("read"), nvals), st.tuples(st.just("read1"), nvals), st.tuples(st.just("read1"), st.none()),
        st.tuples(st.just("readinto"), nvals), st.tuples(st.just("read"), st.just(0)), st.tuples(st.just("read"), st.none()),
    ).map(list)
    tail = st.one_of(
        st.just(["read", None]), st.tuples(st.just("readloop"), nvals).map(list), st.tuples(st.just("read1loop"), st.one_of(nvals, st.none())).map(list),
        st.tuples(st.just("readintoloop"), nvals).map(list), st.tuples(st.just("stream"), st.sampled_from([1, 7, 65536, None, 3, 100])).map(list),
        st.tuples(st.just("read_chunked"), st.sampled_from([None, 1, 2, 5, 40, 1000])).map(list), st.just(["iter", None]), st.just(["data", None]),
    )
    coding = st.one_of(st.sampled_from(CODINGS), st.sampled_from(CODINGS), st.sampled_from(STACKS))

    @st.composite
    def case(draw):
        n = draw(sizes)
        cod = draw(coding)
        members = draw(st.sampled_from([1, 1, 2, 3])) if cod and cod[-1] in ("gzip", "zstd", "x-gzip") else 1
        framing = draw(st.sampled_from(["cl", "chunked", "close"]))
        cs = draw(st.lists(st.integers(1, 40), min_size=0, max_size=4)) if framing == "chunked" else []
        ext = draw(st.booleans()) if framing == "chunked" else False
        big = n > 3000
        seg = draw(st.sampled_from([None, 4096, 1000]) if big else st.sampled_from([None, 1, 2, 5, 17, 100]))
        if big and framing == "chunked" and not cs:
            cs = [4000]
        decode = draw(st.booleans())
        t = draw(tail)
        ops = draw(st.lists(op, max_size=6))
        via = "conn"
        if t[0] == "data":
            via, ops = draw(st.sampled_from(["pool-preload", "pool-preload", "pool-retry-preload"])), []
        elif draw(st.integers(0, 4)) == 0:
            via = draw(st.sampled_from(["pool", "pool-retry"]))
        if t[0] == "read_chunked" and framing != "chunked":
            framing, cs = "chunked", cs or [7]
        if t[0] == "iter":
            decode = True
        c = mk(n, draw(st.integers(0, 50)), cod, members, framing, cs, ext, seg, decode, ops, t, via)
        if framing != "chunked" and c["ops"] is not None and via == "conn" and draw(st.integers(0, 5)) == 0:
            # somewhere in the sequence the caller tries read_chunked() and is (rightly) refused
            pos = draw(st.integers(0, len(c["ops"])))
            c["ops"] = c["ops"][:pos] + [["rc_refused", None]] + c["ops"][pos:]
        if framing == "cl" and draw(st.integers(0, 4)) == 0:
            c["cl_list"] = True
        if framing == "chunked":
            c["hexfmt"] = draw(st.sampled_from(["x", "x", "X", "04x"]))
        if framing == "chunked" and respgen.families(c) == {"A", "B"}:
            c["ops"] = []  # keep one reader family on a chunked response
            c["_dropped_mix"] = True
        if big:
            c["ops"] = [o for o in c["ops"] if not (o[0] in ("read", "readinto", "read1") and o[1] in (1, 2, 3))]
            if c["tail"][0] in ("readloop", "read1loop", "readintoloop", "stream", "read_chunked") and c["tail"][1] in (1, 2, 3, 7):
                c["tail"] = [c["tail"][0], 1000]
        return c

    return case()


def shards(tier, seed):
    L = 2 if tier == "quick" else 3
    total = sum(1 for _ in ex_cases(L))
    out = [{"part": "exhaustive", "L": L, "lo": a, "hi": b} for a, b in core.split_range(total, 32 if tier == "quick" else 128)]
    n = _scale(20000 if tier == "quick" else 600000)
    nsh = 16 if tier == "quick" else 64
    for i in range(nsh):
        out.append({"part": "random", "n": n // nsh, "seed": core.derive_seed(seed, "r", i)})
    from vlib import fuzz

    out += fuzz.shards("C12", tier, seed, quick=(2, 2000), thorough=(16, 60000))
    return out


def fuzz_strategy(which):
    def to_case(c):
        c = dict(c)
        c.pop("_dropped_mix", None)
        return c

    return _hyp(), to_case


def run_shard(spec):
    col = core.Collector()
    if spec["part"] == "atheris":
        import sys

        from vlib import fuzz

        fuzz.run_shard(col, sys.modules[__name__], spec)
        return col
    if spec["part"] == "exhaustive":
        for i, case in enumerate(ex_cases(spec["L"])):
            if not (spec["lo"] <= i < spec["hi"]):
                continue
            if not valid(case):
                continue
            if case["framing"] == "chunked" and respgen.families(case) == {"A", "B"}:
                col.note("excluded_KF-C12-mix")
                continue
            fails = run_case(case)
            nt = nontrivial(case)
            if fails or not col.samples.get("exhaustive"):
                col.case(case, nt, ["exhaustive"], fails, distinct_by_construction=True)
            else:
                col.evaluations += 1
                col.nontrivial_counted += 1 if nt else 0
                col.classes["exhaustive"] += 1
    else:

        def body(case):
            if case.pop("_dropped_mix", False):
                col.note("excluded_KF-C12-mix")
            try:
                fails = run_case(case)
            except core.InvalidCase:
                col.note("invalid_generated")
                return
            col.case(case, nontrivial(case), classes(case), fails)

        core.hyp_run(_hyp(), spec["n"], spec["seed"], body)
    return col


def presets():
    return [
        mk(100, 0, ["gzip"], 1, "cl", [], False, None, True, [["read", 2]], ["read", None]),  # D2
        mk(200, 0, ["zstd"], 2, "chunked", [], False, None, True, [], ["stream", 1]),  # D3
        mk(300, 1, ["gzip", "zstd"], 1, "close", [], False, 5, True, [["read1", 7]], ["readloop", 64]),
        mk(50, 0, [], 1, "chunked", [3, 1], True, 2, False, [], ["read_chunked", 2]),
    ]


def min_nontrivial(tier):
    return 10000
