"""H1 + H6: deterministic in-memory network and virtual clock for urllib3.

Seams replaced from the harness (no repository change):
  * the name `socket` inside urllib3.util.connection -> a shim whose getaddrinfo()/socket() are ours,
    so urllib3's real create_connection (bracket stripping, timeout, options, bind) still runs;
  * urllib3.util.wait.wait_for_socket -> "has pending bytes / EOF / error";
  * the name `time` inside urllib3.util.timeout and urllib3.util.retry -> virtual clock.

The server side reacts synchronously inside sendall(): bytes are parsed by the strict
request parser (vlib.wire) and the endpoint's scripted action queues what the client
will read next.  Everything a socket is told (timeouts, bytes, close) is recorded.
"""
from __future__ import annotations

import collections
import errno
import io
import socket as _socket
import threading
import types
import typing

from . import wire


class HarnessBug(Exception):
    pass


DEAD_PREFIX = "192.0.2."  # TEST-NET-1: the addresses of Net.dead_first


class VClock:
    """Virtual time: monotonic()/time() read it, sleep() records and advances it."""

    def __init__(self, start: float = 1000.0):
        self.now = float(start)
        self.sleeps: list[float] = []
        self.interrupt: BaseException | None = None  # armed by a scripted server: raised once by the next sleep()

    def monotonic(self) -> float:
        return self.now

    def time(self) -> float:
        return self.now + 1_700_000_000.0

    def sleep(self, x: float) -> None:
        self.sleeps.append(x)
        if self.interrupt is not None:
            exc, self.interrupt = self.interrupt, None
            raise exc
        if x > 0:
            self.now += x

    def advance(self, x: float) -> None:
        self.now += x


EOF = ("eof",)
NEVER = ("timeout",)  # nothing will ever arrive: recv raises socket.timeout


class FakeSocket:
    _ids = 0

    def __init__(self, net: "Net", family=_socket.AF_INET, type_=_socket.SOCK_STREAM, proto=0):
        self.net = net
        net._sock_seq += 1
        self.sid = net._sock_seq
        self.family, self.type, self.proto = family, type_, proto
        self.timeout: float | None = None
        self.timeouts_set: list = []  # every value passed to settimeout, in order
        self.options: list = []
        self.bound: typing.Any = None
        self.addr: typing.Any = None  # (host, port) dialled
        self.connected = False
        self.closed = False  # close() was called
        self.really_closed = False  # close() called and no makefile() object outstanding
        self._io_refs = 0
        self.tx = bytearray()  # every byte written by the client
        self.tx_events: list = []  # (thread ident, nbytes)
        self.rx: collections.deque = collections.deque()
        self.endpoint: typing.Any = None
        self.recv_calls = 0
        self.recv_timeouts: list = []  # timeout in force at each recv that had to wait for the peer
        self.state: dict = {}  # endpoint scratch space
        self.shutdowns: list = []
        net.sockets.append(self)

    # ---- configuration
    def setsockopt(self, *a):
        self.options.append(a)

    def getsockopt(self, *a):
        return 0

    def bind(self, addr):
        self.bound = addr

    def settimeout(self, value):
        if value is not None:
            if isinstance(value, bool) or not isinstance(value, (int, float)):
                raise TypeError("a float is required")
            if value < 0:
                raise ValueError("Timeout value out of range")
        self.timeout = value
        self.timeouts_set.append(value)
        self.net.log("settimeout", self.sid, value)

    def gettimeout(self):
        return self.timeout

    def setblocking(self, flag):
        self.settimeout(None if flag else 0.0)

    def fileno(self):
        return -1 if self.closed else 10_000 + self.sid

    def getpeername(self):
        return self.addr

    def getsockname(self):
        return ("127.0.0.1", 50_000 + self.sid)

    # ---- connect
    def connect(self, sa):
        if self.closed:
            raise OSError(errno.EBADF, "Bad file descriptor")
        self.addr = sa
        self.net.log("connect", self.sid, sa, self.timeout)
        if str(sa[0]).startswith(DEAD_PREFIX):
            # one of the additional addresses the name resolved to: nothing listens there
            self.dialled_dead = True
            if int(str(sa[0]).rsplit(".", 1)[1]) % 2:
                raise ConnectionRefusedError(errno.ECONNREFUSED, "Connection refused")
            raise _socket.timeout("timed out")
        self.net.on_connect(self, sa)  # may raise
        self.connected = True
        self.net.note_open(self)

    # ---- write
    def sendall(self, data, flags=0):
        if self.closed:
            raise OSError(errno.EBADF, "Bad file descriptor")
        data = bytes(data)
        self.net.log("send", self.sid, len(data), self.timeout)
        self.net.check_owner(self, "send")
        if not data:
            return None  # an empty send (SSLTransport flushes an empty BIO) puts nothing on the wire and is no arrival event
        self.tx_events.append((threading.get_ident(), len(data)))
        if self.endpoint is not None:
            self.endpoint.on_send(self, data)  # may raise (send fault); records into self.tx itself
        else:
            self.tx += data
        return None

    def send(self, data, flags=0):
        self.sendall(data)
        return len(data)

    # ---- read
    def _next(self, n: int, peek: bool = False) -> bytes:
        if self.closed and self._io_refs <= 0:
            raise OSError(errno.EBADF, "Bad file descriptor")
        self.recv_calls += 1
        self.net.check_owner(self, "recv")
        while self.rx and self.rx[0] == b"":
            self.rx.popleft()
        if not self.rx:
            if self.endpoint is not None and hasattr(self.endpoint, "on_idle_recv"):
                self.endpoint.on_idle_recv(self)
            if not self.rx:
                self.rx.append(NEVER)
        item = self.rx[0]
        if isinstance(item, (bytes, bytearray)):
            self.net.log("recv", self.sid, min(n, len(item)), self.timeout)
            out = bytes(item[:n])
            if not peek:
                if len(item) > n:
                    self.rx[0] = item[n:]
                else:
                    self.rx.popleft()
            return out
        if item == EOF:
            self.net.log("recv-eof", self.sid)
            return b""
        if item == NEVER:
            self.recv_timeouts.append(self.timeout)
            self.net.log("recv-wait", self.sid, self.timeout)
            if self.timeout is not None and self.timeout > 0:
                self.net.clock.advance(self.timeout)
            raise _socket.timeout("timed out")
        if item[0] == "exc":
            self.net.log("recv-exc", self.sid, type(item[1]).__name__)
            e = item[1]
            if isinstance(e, Exception):
                # a fresh instance each time: the stored one must not collect tracebacks (they would keep
                # the caller's frames, and through them responses and their sockets, alive)
                e = type(e)(*e.args)
            raise e
        raise HarnessBug(f"bad rx item {item!r}")

    def recv(self, n, flags=0):
        return self._next(n, peek=bool(flags & _socket.MSG_PEEK))

    def recv_into(self, buf, nbytes=0, flags=0):
        mv = memoryview(buf)
        n = nbytes or len(mv)
        data = self._next(n, peek=bool(flags & _socket.MSG_PEEK))
        mv[: len(data)] = data
        return len(data)

    def readable_now(self) -> bool:
        while self.rx and self.rx[0] == b"":
            self.rx.popleft()
        return bool(self.rx) and self.rx[0] != NEVER

    def makefile(self, mode="r", buffering=None, **kw):
        if "b" not in mode or "w" in mode:
            raise HarnessBug(f"makefile mode {mode!r} not supported")
        raw = _socket.SocketIO(self, "rb")  # the real stdlib raw reader
        self._io_refs += 1
        if buffering is None or buffering < 0:
            buffering = io.DEFAULT_BUFFER_SIZE
        if buffering == 0:
            return raw
        return io.BufferedReader(raw, buffering)

    def _decref_socketios(self):
        if self._io_refs > 0:
            self._io_refs -= 1
        if self.closed and self._io_refs <= 0:
            self._real_close()

    # ---- close
    def shutdown(self, how):
        self.shutdowns.append(how)

    def _real_close(self):
        if not self.really_closed:
            self.really_closed = True
            self.net.log("real-close", self.sid)
            self.net.note_closed(self)

    def close(self):
        if not self.closed:
            self.closed = True
            self.net.log("close", self.sid)
            if self.connected:
                self.net.open_conns -= 1
        if self._io_refs <= 0:
            self._real_close()

    def detach(self):
        if not self.closed and self.connected:
            self.net.open_conns -= 1
        self.closed = True
        self._real_close()
        return -1

    def __enter__(self):
        return self

    def __exit__(self, *a):
        self.close()

    def __repr__(self):
        return f"<FakeSocket #{self.sid} {self.addr} closed={self.closed}>"


class Net:
    """One per test case. Use as a context manager (installs / removes the seams)."""

    def __init__(self, endpoint=None, clock: VClock | None = None):
        self.endpoint = endpoint
        self.clock = clock or VClock()
        self.sockets: list[FakeSocket] = []
        self.events: list = []
        self._sock_seq = 0
        self.open_now = 0
        self.max_open = 0
        self.open_conns = 0
        self.max_open_conns = 0
        self.dials: list = []  # (host, port, timeout, source_address-ish)
        self.gai_calls: list = []
        self.owner_check: typing.Callable | None = None
        self.dead_first = 0  # names resolve to this many addresses where nothing listens, followed by the real one
        self._saved: list = []

    # -- logging / accounting
    def log(self, *ev):
        self.events.append(ev)

    def note_open(self, s):
        self.open_now += 1
        self.max_open = max(self.max_open, self.open_now)
        # connections as their owner sees them: open from connect() until close() is called (the descriptor
        # itself may live longer while an abandoned response still references its reader)
        self.open_conns += 1
        self.max_open_conns = max(self.max_open_conns, self.open_conns)

    def note_closed(self, s):
        if s.connected:
            self.open_now -= 1

    def check_owner(self, sock, what):
        if self.owner_check is not None:
            self.owner_check(sock, what)

    # -- connect dispatch
    def on_connect(self, sock: FakeSocket, sa):
        self.dials.append((sa[0], sa[1], sock.timeout))
        ep = self.endpoint
        if ep is None:
            raise ConnectionRefusedError(errno.ECONNREFUSED, "Connection refused")
        sock.endpoint = ep
        ep.on_connect(sock, sa)  # may raise; may replace sock.endpoint

    # -- the socket-module shim used by urllib3.util.connection
    def _shim(self):
        net = self
        ns = types.SimpleNamespace(**{k: getattr(_socket, k) for k in dir(_socket) if not k.startswith("__")})

        def getaddrinfo(host, port, family=0, type=0, proto=0, flags=0):
            net.gai_calls.append((host, port))
            ep = net.endpoint
            if ep is not None and hasattr(ep, "on_resolve"):
                ep.on_resolve(host, port)  # may raise socket.gaierror
            fam = _socket.AF_INET6 if ":" in host else _socket.AF_INET
            sa = (host, port, 0, 0) if fam == _socket.AF_INET6 else (host, port)
            dead = [(_socket.AF_INET, _socket.SOCK_STREAM, 6, "", (DEAD_PREFIX + str(i + 1), port)) for i in range(net.dead_first)]
            return dead + [(fam, _socket.SOCK_STREAM, 6, "", sa)]

        def mksock(family=_socket.AF_INET, type=_socket.SOCK_STREAM, proto=0, fileno=None):
            return FakeSocket(net, family, type, proto)

        ns.getaddrinfo = getaddrinfo
        ns.socket = mksock
        return ns

    def _wait_for_socket(self, sock, read=False, write=False, timeout=None):
        s = sock
        for _ in range(4):
            if isinstance(s, FakeSocket):
                break
            s = getattr(s, "_fake", None) or getattr(s, "socket", None) or getattr(s, "_sock", None)
        if not isinstance(s, FakeSocket):
            raise HarnessBug(f"wait_for_socket on a foreign object {sock!r}")
        if write and not read:
            return True
        ready = s.readable_now()
        self.log("wait", s.sid, "read", timeout, ready)
        return ready

    def install(self):
        import urllib3.util.connection as uc
        import urllib3.util.retry as ur
        import urllib3.util.timeout as ut
        import urllib3.util.wait as uw

        self._saved = [(uc, "socket", uc.socket), (uw, "wait_for_socket", uw.wait_for_socket), (ut, "time", ut.time), (ur, "time", ur.time)]
        uc.socket = self._shim()
        uw.wait_for_socket = self._wait_for_socket
        ut.time = self.clock
        ur.time = self.clock
        return self

    def uninstall(self):
        for mod, name, val in reversed(self._saved):
            setattr(mod, name, val)
        self._saved = []

    def __enter__(self):
        return self.install()

    def __exit__(self, *a):
        self.uninstall()

    # -- convenience views
    def open_sockets(self):
        return [s for s in self.sockets if s.connected and not s.really_closed]

    def all_tx(self) -> bytes:
        return b"".join(bytes(s.tx) for s in self.sockets)


# --------------------------------------------------------------------------- endpoints


def reason(status: int) -> bytes:
    return {200: b"OK", 204: b"No Content", 301: b"Moved Permanently", 302: b"Found", 303: b"See Other", 304: b"Not Modified", 307: b"Temporary Redirect", 308: b"Permanent Redirect", 403: b"Forbidden", 407: b"Proxy Authentication Required", 413: b"Payload Too Large", 429: b"Too Many Requests", 500: b"Internal Server Error", 502: b"Bad Gateway", 503: b"Service Unavailable"}.get(status, b"Status")


def chunked(body: bytes, sizes: typing.Sequence[int] = (), ext: bytes = b"", trailers: bytes = b"", fmt: bytes = b"%x") -> bytes:
    out = bytearray()
    pos = 0
    i = 0
    while pos < len(body):
        n = sizes[i % len(sizes)] if sizes else len(body) - pos
        n = max(1, min(n, len(body) - pos))
        out += fmt % n + ext + b"\r\n" + body[pos : pos + n] + b"\r\n"
        pos += n
        i += 1
    out += b"0\r\n" + trailers + b"\r\n"
    return bytes(out)


def response_bytes(status=200, headers: typing.Sequence[tuple] = (), body: bytes = b"", framing="cl", keep_alive=True, chunk_sizes=(), version=b"HTTP/1.1", declared_length: int | None = None) -> bytes:
    lines = [version + b" %d " % status + reason(status)]
    hs = list(headers)
    if framing == "cl":
        hs.append((b"Content-Length", b"%d" % (len(body) if declared_length is None else declared_length)))
        payload = body
    elif framing == "chunked":
        hs.append((b"Transfer-Encoding", b"chunked"))
        payload = chunked(body, chunk_sizes)
    elif framing == "close":
        keep_alive = False
        payload = body
    elif framing == "none":
        payload = b""
    else:
        raise HarnessBug(framing)
    if not keep_alive:
        hs.append((b"Connection", b"close"))
    for k, v in hs:
        lines.append((k if isinstance(k, bytes) else k.encode("latin-1")) + b": " + (v if isinstance(v, bytes) else str(v).encode("latin-1")))
    return b"\r\n".join(lines) + b"\r\n\r\n" + payload


def segment(data: bytes, seg) -> list:
    """Split into network segments: seg = None/0 -> one piece; int -> fixed size; list -> cyclic sizes."""
    if not seg:
        return [data] if data else []
    sizes = [seg] if isinstance(seg, int) else list(seg)
    out = []
    pos = 0
    i = 0
    while pos < len(data):
        n = max(1, sizes[i % len(sizes)])
        out.append(data[pos : pos + n])
        pos += n
        i += 1
    return out


class Endpoint:
    """Base server: accumulates client bytes per socket, parses complete requests strictly,
    and calls self.handle(sock, request) for each. Subclasses queue what the client reads."""

    def __init__(self):
        self.requests: list = []  # (sid, wire.Request) in arrival order
        self.parse_errors: list = []
        self.connects: list = []

    def on_connect(self, sock: FakeSocket, sa):
        self.connects.append((sock.sid, sa))
        sock.state["buf"] = bytearray()
        sock.state["nreq"] = 0

    def on_send(self, sock: FakeSocket, data: bytes):
        self.before_bytes(sock, data)  # may raise a send fault (then the bytes are not delivered)
        if data.startswith(b"\x16NULLTLS-HELLO "):
            # null-TLS marker handshake (vlib.nulltls): answer with an identity valid for the dialled host
            from . import nulltls

            host = str(sock.state.get("tunnel_host") or sock.addr[0]).strip("[]").lower()  # inside a CONNECT tunnel: the destination
            is_ip = ":" in host or host.replace(".", "").isdigit()
            ident = nulltls.Identity([("IP Address" if is_ip else "DNS", host)], label="endpoint")
            sock.state.setdefault("tls_hellos", []).append(data)
            sock.rx.append(nulltls.CERT + b"%d\n" % ident.id)
            return
        sock.tx += data
        buf = sock.state.setdefault("buf", bytearray())
        buf += data
        while buf:
            req, pos, err = wire.parse_one_request(bytes(buf), 0)
            if err is not None:
                if err.startswith("malformed"):
                    self.parse_errors.append((sock.sid, err))
                    self.on_malformed(sock, err)
                    del buf[:]
                return
            del buf[:pos]
            sock.state["nreq"] = sock.state.get("nreq", 0) + 1
            self.requests.append((sock.sid, req))
            self.handle(sock, req)

    def before_bytes(self, sock, data):
        pass

    def on_malformed(self, sock, err):
        sock.rx.append(b"HTTP/1.1 400 Bad Request\r\nContent-Length: 0\r\nConnection: close\r\n\r\n")
        sock.rx.append(EOF)

    def handle(self, sock, req):
        self.reply(sock, response_bytes(200, body=b"ok"))

    @staticmethod
    def reply(sock, data: bytes, seg=None, then=None):
        for piece in segment(data, seg):
            sock.rx.append(piece)
        if then == "eof":
            sock.rx.append(EOF)
        elif then == "timeout":
            sock.rx.append(NEVER)
        elif isinstance(then, bytes):
            sock.rx.append(then)
        elif isinstance(then, BaseException):
            sock.rx.append(("exc", then))


def tag_body(target: bytes, n: int, serial: int) -> bytes:
    """A body of exactly n bytes in which every 8-byte window identifies the request it answers."""
    unit = b"<" + target[:40] + b"#%d>" % serial
    if n <= 0:
        return b""
    return (unit * (n // len(unit) + 1))[:n]
