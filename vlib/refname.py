"""H5 (part): three-valued RFC 6125 reference for certificate name matching.

Written label-wise, without regular expressions and without importing urllib3.
`decide(sans, cn, host, cn_enabled)` returns 'accept', 'reject' or 'either'.
"""
from __future__ import annotations

import ipaddress


def _labels(name: str) -> list[str]:
    return name.split(".")


def _wild_match(pat: str, label: str) -> bool:
    """pat contains exactly one '*': prefix*suffix against one label."""
    i = pat.index("*")
    pre, suf = pat[:i].lower(), pat[i + 1 :].lower()
    lab = label.lower()
    return len(lab) >= len(pre) + len(suf) and lab.startswith(pre) and lab.endswith(suf)


def dns_strict(dn: str, host: str) -> bool:
    """MUST accept: exact case-insensitive equality without a wildcard in the left-most
    label, or left-most label exactly '*' covering one non-empty host label."""
    if not dn:
        return False
    dl, hl = _labels(dn), _labels(host)
    if "*" not in dl[0]:
        return dn.lower() == host.lower()
    if dl[0] == "*":
        return len(dl) == len(hl) and hl[0] != "" and [x.lower() for x in dl[1:]] == [x.lower() for x in hl[1:]]
    return False


def dns_liberal(dn: str, host: str) -> bool:
    """Upper bound of what MAY be accepted; everything outside MUST be rejected."""
    if not dn:
        return False
    dl, hl = _labels(dn), _labels(host)
    if len(dl) != len(hl):
        return False
    if [x.lower() for x in dl[1:]] != [x.lower() for x in hl[1:]]:
        return False  # a '*' in another label only ever matches itself
    left, hleft = dl[0], hl[0]
    n = left.count("*")
    if n == 0:
        return left.lower() == hleft.lower()
    if n > 1:
        return False
    if left == "*":
        return hleft != ""
    if left.lower().startswith("xn--"):
        return left.lower() == hleft.lower()  # a wildcard embedded in an A-label never expands
    # (RFC 6125 does not forbid a partial wildcard such as '*a' from matching an
    # A-label host; urllib3 happens to refuse that, which is inside the band.)
    return _wild_match(left, hleft)


def host_ip(host: str):
    """The requested host as an IP address value, or None for a DNS name.
    One pair of brackets and a %zone suffix are not part of the address."""
    h = host
    if h.startswith("[") and h.endswith("]"):
        h = h[1:-1]
    if "%" in h:
        h = h[: h.rfind("%")]
    try:
        return ipaddress.ip_address(h)
    except ValueError:
        return None


def san_ip(value: str):
    try:
        return ipaddress.ip_address(value.rstrip())
    except ValueError:
        return None


def malformed_wild(dn: str) -> bool:
    return _labels(dn)[0].count("*") > 1 if dn else False


def decide(sans: list[tuple[str, str]], cn: str | None, host: str, cn_enabled: bool) -> str:
    ip = host_ip(host)
    relevant = [(k, v) for k, v in sans if k in ("DNS", "IP Address")]
    if ip is not None:
        # only IP entries, compared by value; a malformed IP entry may make the
        # implementation fail closed before it reaches a later matching entry
        saw_bad = False
        for k, v in sans:
            if k != "IP Address":
                continue
            val = san_ip(v)
            if val is None:
                saw_bad = True
                continue
            if val.version == ip.version and int(val) == int(ip):
                return "either" if saw_bad else "accept"
        return "reject"
    must = may = False
    bad_before = False
    for k, v in sans:
        if k != "DNS":
            continue
        if malformed_wild(v):
            bad_before = True
            continue
        if dns_strict(v, host):
            must = must or not bad_before
            may = True
        elif dns_liberal(v, host):
            may = True
    if not relevant and cn_enabled and cn is not None:
        if malformed_wild(cn):
            return "reject"
        if dns_strict(cn, host):
            return "accept"
        if dns_liberal(cn, host):
            return "either"
        return "reject"
    if must:
        return "accept"
    if may:
        return "either"
    return "reject"
