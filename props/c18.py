"""C18 - connections are never shared across differing connection settings."""
from __future__ import annotations

import copy
import inspect
import itertools
import os

from vlib import core, fakenet, nulltls
from vlib.core import Failure

PROP = "C18"
RULE = (
    "the keyword universe is DERIVED AT RUN TIME with inspect.signature from the constructors of HTTPConnectionPool, "
    "HTTPSConnectionPool, HTTPConnection and HTTPSConnection (minus host/port), so a keyword added later is in scope; each "
    "keyword has two distinct valid values (typed table, fallback two strings). A case is (manager PoolManager | ProxyManager (http forwarded, https tunnelled), scheme http|https, a base context = "
    "subset of keyword->value, one keyword to vary or none, supply path: manager default vs pool_kwargs | two pool_kwargs | "
    "connection_from_context | connection_from_host, URL spelling variants in case / explicit default port). Oracle: one "
    "differing keyword => different pool objects or the keyword is rejected with TypeError/ValueError (silently accepted and "
    "ignored by the key is the violation); no difference => the identical pool; every derived keyword is a pool-key field or "
    "rejected; a request under context Y never travels on a socket opened under context X; the manager's defaults and every "
    "caller-supplied dict are unchanged afterwards. Non-trivial = the differing keyword is TLS / proxy / source-address "
    "related, or arrives through pool_kwargs."
)
ASSUMPTIONS = [
    "two distinct valid values per keyword come from the table in props/c18.py; unknown future keywords get two distinct strings",
    "requests (for the socket-reuse clause) are only made for contexts under which the in-memory network can connect; pool identity is checked for all",
]
EXHAUSTIVE = {"quick": True, "thorough": True}

SECURITY = {"key_file", "cert_file", "cert_reqs", "key_password", "ca_certs", "ca_cert_dir", "ca_cert_data", "ssl_version", "ssl_minimum_version", "ssl_maximum_version", "assert_hostname",
            "assert_fingerprint", "server_hostname", "ssl_context", "source_address", "_proxy", "_proxy_headers", "_proxy_config", "proxy", "proxy_config", "socket_options"}
# values of the table that equal the implicit default of their keyword (absent == given: sharing a pool would be legitimate)
DEFAULT_EQUIVALENT = {("block", 0), ("cert_reqs", 0), ("socket_options", 0), ("ssl_minimum_version", 0), ("ssl_maximum_version", 0), ("ssl_maximum_version", 1), ("ssl_version", 0)}
CONNECTABLE = {"timeout", "maxsize", "block", "headers", "retries", "blocksize", "socket_options", "ssl_context", "server_hostname", "source_address"}


def _scale(n):
    return max(1, int(n * float(os.environ.get("VERIF_SCALE", "1"))))


def universe():
    from urllib3.connection import HTTPConnection, HTTPSConnection
    from urllib3.connectionpool import HTTPConnectionPool, HTTPSConnectionPool

    names: list = []
    for cls in (HTTPConnectionPool, HTTPSConnectionPool, HTTPConnection, HTTPSConnection):
        for n, p in inspect.signature(cls.__init__).parameters.items():
            if n in ("self", "host", "port") or p.kind in (p.VAR_KEYWORD, p.VAR_POSITIONAL):
                continue
            if n not in names:
                names.append(n)
    return names


_CTX: dict = {}


def value(name: str, idx: int):
    """Two distinct valid values per keyword (objects are created once per process so that equal indices are identical)."""
    import ssl

    from urllib3.util.retry import Retry
    from urllib3.util.timeout import Timeout
    from urllib3.util.url import parse_url

    key = (name, idx)
    if key in _CTX:
        return _CTX[key]
    from urllib3.connection import ProxyConfig

    table = {
        "timeout": (1.5, Timeout(connect=2.0, read=7.0)), "maxsize": (2, 3), "block": (False, True), "headers": ({"X-A": "1"}, {"X-A": "2"}), "retries": (1, Retry(2)),
        "_proxy": (parse_url("http://p1.test:3128"), parse_url("http://p2.test:3128")), "_proxy_headers": ({"P": "1"}, {"P": "2"}),
        "_proxy_config": (ProxyConfig(None, False, None, None), ProxyConfig(None, True, None, None)),
        "proxy": (parse_url("http://p1.test:3128"), parse_url("http://p2.test:3128")), "proxy_config": (ProxyConfig(None, False, None, None), ProxyConfig(None, True, None, None)),
        "key_file": ("/k1.pem", "/k2.pem"), "cert_file": ("/c1.pem", "/c2.pem"), "cert_reqs": ("CERT_REQUIRED", "CERT_OPTIONAL"), "key_password": ("pw1", "pw2"),
        "ca_certs": ("/ca1.pem", "/ca2.pem"), "ca_cert_dir": ("/cadir1", "/cadir2"), "ca_cert_data": ("PEM-ONE", "PEM-TWO"), "ssl_version": (ssl.PROTOCOL_TLS_CLIENT, "PROTOCOL_TLSv1_2"),
        "ssl_minimum_version": (ssl.TLSVersion.TLSv1_2, ssl.TLSVersion.TLSv1_3), "ssl_maximum_version": (ssl.TLSVersion.TLSv1_3, ssl.TLSVersion.TLSv1_2),
        "assert_hostname": ("other.test", False), "assert_fingerprint": ("AA" * 32, "BB" * 32), "server_hostname": ("sni-one.test", "sni-two.test"),
        "ssl_context": (nulltls.NullTLSContext("ctx-one"), nulltls.NullTLSContext("ctx-two")), "source_address": (("127.0.0.1", 0), ("127.0.0.2", 0)),
        "blocksize": (8192, 4096), "socket_options": ([(6, 1, 1)], [(6, 1, 0)]),
    }
    v = table.get(name, ("value-one", "value-two"))[idx]
    _CTX[key] = v
    return v


def _ctx(spec):
    """spec = {name: idx} -> kwargs (fresh containers for dicts/lists so that caller-side mutation would be visible)."""
    out = {}
    for n, i in spec.items():
        v = value(n, i)
        out[n] = copy.copy(v) if isinstance(v, (dict, list)) else v
    return out


def _get(pm, how, scheme, host, port, pool_kwargs):
    url = f"{scheme}://{host}" + (f":{port}" if port else "") + "/"
    if how == "url":
        return pm.connection_from_url(url, pool_kwargs=pool_kwargs)
    if how == "host":
        return pm.connection_from_host(host, port, scheme, pool_kwargs=pool_kwargs)
    if how == "context":
        ctx = pm._merge_pool_kwargs(pool_kwargs)
        ctx.update({"scheme": scheme, "host": host, "port": port or {"http": 80, "https": 443}[scheme]})
        return pm.connection_from_context(ctx)
    raise core.InvalidCase


def run_case(case) -> list[Failure]:
    import urllib3

    if case.get("kind") != "key" or case.get("scheme") not in ("http", "https") or case.get("how") not in ("url", "host", "context") or case.get("path") not in ("default-vs-kwargs", "kwargs-vs-kwargs", "same", "absent-vs-kwargs0", "absent-vs-kwargs1"):
        raise core.InvalidCase
    if case.get("mgr", "pm") not in ("pm", "proxy") or (case.get("mgr") == "proxy" and case["how"] == "context"):
        raise core.InvalidCase  # (connection_from_context is not a ProxyManager route: it would bypass the proxy)
    names = universe()
    base, vary = case.get("base", {}), case.get("vary")
    if not isinstance(base, dict) or any(k not in names or v not in (0, 1) for k, v in base.items()) or (vary is not None and vary not in names + ["zz_unknown_keyword"]):
        raise core.InvalidCase
    if vary is not None and vary in base and case["path"] != "same":
        base = {k: v for k, v in base.items() if k != vary}
    scheme = case["scheme"]
    fails: list[Failure] = []
    sig = {"scheme": scheme, "path": case["path"], "how": case["how"]}
    if case.get("mgr") == "proxy":
        sig["mgr"] = "proxy"
    srv = fakenet.Endpoint()

    def brief():
        return f"{ {k: v for k, v in case.items() if k != 'kind'} }"

    with fakenet.Net(srv) as net:
        octx = value("ssl_context", 0)
        defaults = _ctx(base)
        if scheme == "https" and "ssl_context" not in defaults:
            defaults["ssl_context"] = octx
        mgr_kw = dict(defaults)
        x_kw, y_kw = None, None
        if case["path"] == "default-vs-kwargs":
            x_kw, y_kw = None, ({vary: value(vary, 1)} if vary else None)
            if vary:
                mgr_kw[vary] = value(vary, 0)
        elif case["path"] == "kwargs-vs-kwargs":
            x_kw, y_kw = ({vary: value(vary, 0)} if vary else {}), ({vary: value(vary, 1)} if vary else {})
        elif case["path"].startswith("absent-vs-kwargs"):
            # the keyword is absent on one side and has a value that differs from the implicit default on the other
            idx = int(case["path"][-1])
            if vary is None or (vary, idx) in DEFAULT_EQUIVALENT or vary == "ssl_context":
                raise core.InvalidCase
            if case.get("mgr") == "proxy" and vary in ("_proxy", "_proxy_headers", "_proxy_config"):
                raise core.InvalidCase  # never absent there: the ProxyManager sets them itself
            x_kw, y_kw = None, {vary: value(vary, idx)}
        else:  # same: equal contexts, spelled twice
            x_kw = {vary: value(vary, 0)} if vary else None
            y_kw = {vary: value(vary, 0)} if vary else None
        try:
            # (through a ProxyManager an http URL is forwarded: its pool is the pool towards the proxy; https is tunnelled)
            pm = urllib3.ProxyManager("http://proxy.test:3128", **mgr_kw) if case.get("mgr") == "proxy" else urllib3.PoolManager(**mgr_kw)
        except (TypeError, ValueError) as e:
            return fails  # rejected at construction: fine
        snap_kw = _snapshot(pm.connection_pool_kw)
        snap_hdr = _snapshot(pm.headers)
        snap_x, snap_y = _snapshot(x_kw), _snapshot(y_kw)
        host_x, host_y = "example.test", "example.test"
        port_x = port_y = None
        scheme_y = scheme
        if case.get("spelling"):
            host_y, scheme_y = "EXAMPLE.Test", scheme.upper()
            port_y = {"http": 80, "https": 443}[scheme]
        X = Y = None
        rej_x = rej_y = None
        try:
            X = _get(pm, case["how"], scheme, host_x, port_x, x_kw)
        except (TypeError, ValueError) as e:
            rej_x = e
        except Exception as e:  # noqa: BLE001
            fails.append(Failure("unexpected-exception", {**sig, "exc": type(e).__name__, "keyword": vary}, f"{type(e).__name__}: {e} while obtaining the first pool: {brief()}"))
            return fails
        try:
            # an upper-case scheme is only meaningful inside a URL (connection_from_host documents a lower-case scheme)
            Y = _get(pm, case["how"], scheme_y if case["how"] == "url" else scheme, host_y, port_y, y_kw)
        except (TypeError, ValueError) as e:
            rej_y = e
        except Exception as e:  # noqa: BLE001
            fails.append(Failure("unexpected-exception", {**sig, "exc": type(e).__name__, "keyword": vary, "spelling": bool(case.get("spelling"))}, f"{type(e).__name__}: {e} while obtaining the second pool: {brief()}"))
            return fails
        differs = vary is not None and case["path"] != "same"
        is_field = vary is None or ("key_" + vary) in urllib3.poolmanager.PoolKey._fields
        if differs:
            if X is not None and Y is not None and X is Y:
                fails.append(Failure("shared-pool", {**sig, "keyword": vary, "security": vary in SECURITY}, f"contexts that differ in {vary!r} ({value(vary, 0)!r} vs {value(vary, 1)!r}) share one pool: {brief()}"))
            if not is_field and rej_y is None and case["path"] == "kwargs-vs-kwargs":
                fails.append(Failure("completeness", {**sig, "keyword": vary}, f"keyword {vary!r} is accepted but is not part of the pool key: {brief()}"))
        else:
            if rej_x is None and rej_y is None and X is not Y:
                fails.append(Failure("split-pool", {**sig, "keyword": vary, "spelling": bool(case.get("spelling"))}, f"equal contexts gave two different pools: {brief()}"))
            if (rej_x is None) != (rej_y is None):
                fails.append(Failure("split-pool", {**sig, "keyword": vary, "what": "rejected-once"}, f"equal contexts: one rejected ({rej_x or rej_y}), one accepted: {brief()}"))
        # ---- a request under Y never travels on a socket opened under X
        if X is not None and Y is not None and differs and (vary in CONNECTABLE) and all(k in CONNECTABLE for k in base):
            try:
                X.urlopen("GET", "/x", retries=False).data
                n_x = len(net.sockets)
                Y.urlopen("GET", "/y", retries=False).data
                used = [s.sid for s in net.sockets if b"GET /y " in bytes(s.tx)]
                if used and used[0] <= n_x:
                    fails.append(Failure("shared-connection", {**sig, "keyword": vary}, f"the request under the second context went out on socket #{used[0]}, opened under the first: {brief()}"))
            except Exception:  # noqa: BLE001 - the context does not allow connecting here; identity was checked above
                pass
        # ---- immutability
        if _snapshot(pm.connection_pool_kw) != snap_kw:
            fails.append(Failure("mutated", {**sig, "what": "connection_pool_kw", "keyword": vary}, f"manager defaults changed from {snap_kw} to {_snapshot(pm.connection_pool_kw)}: {brief()}"))
        if _snapshot(pm.headers) != snap_hdr:
            fails.append(Failure("mutated", {**sig, "what": "headers"}, f"manager headers changed: {brief()}"))
        if _snapshot(x_kw) != snap_x or _snapshot(y_kw) != snap_y:
            fails.append(Failure("mutated", {**sig, "what": "pool_kwargs", "keyword": vary}, f"the caller's pool_kwargs dict was modified: {brief()}"))
        pm.clear()
    return fails


def _snapshot(o):
    if o is None:
        return None
    if isinstance(o, dict) or hasattr(o, "items"):
        return sorted((str(k), _snapshot(v)) for k, v in o.items())
    if isinstance(o, (list, tuple)):
        return [_snapshot(x) for x in o]
    return repr(o) if not isinstance(o, (str, int, float, bool)) else o


def check_case(case):
    return run_case(case)


def nontrivial(case):
    return case.get("vary") in SECURITY or case["path"] != "same"


def classes(case):
    return ["mgr:" + case.get("mgr", "pm"), "scheme:" + case["scheme"], "path:" + case["path"], "how:" + case["how"], "vary:" + str(case.get("vary")), "base:%d" % len(case.get("base", {}))] + (["spelling-variant"] if case.get("spelling") else [])


def enum_cases(tier):
    names = universe() + ["zz_unknown_keyword"]
    for vary in names:
        for scheme in ("http", "https"):
            for path in ("default-vs-kwargs", "kwargs-vs-kwargs", "same", "absent-vs-kwargs0", "absent-vs-kwargs1"):
                for how in ("url", "host", "context"):
                    if path.startswith("absent") and ((vary, int(path[-1])) in DEFAULT_EQUIVALENT or vary == "ssl_context"):
                        continue
                    yield {"kind": "key", "scheme": scheme, "path": path, "how": how, "base": {}, "vary": vary, "spelling": False}
                    if how != "context" and not (path.startswith("absent") and vary in ("_proxy", "_proxy_headers", "_proxy_config")):
                        yield {"kind": "key", "scheme": scheme, "path": path, "how": how, "base": {}, "vary": vary, "spelling": False, "mgr": "proxy"}
    for scheme in ("http", "https"):
        for how in ("url", "host"):
            yield {"kind": "key", "scheme": scheme, "path": "same", "how": how, "base": {}, "vary": None, "spelling": True}
            for vary in ("timeout", "headers", "retries", "ssl_context"):
                yield {"kind": "key", "scheme": scheme, "path": "same", "how": how, "base": {}, "vary": vary, "spelling": True}
    if tier != "quick":
        # all keyword PAIRS: the second keyword is part of the base context
        real = universe()
        for a, b in itertools.permutations(real, 2):
            for scheme in ("http", "https"):
                yield {"kind": "key", "scheme": scheme, "path": "kwargs-vs-kwargs", "how": "url", "base": {b: 0}, "vary": a, "spelling": False}


def _hyp():
    from hypothesis import strategies as st

    names = universe()
    return st.fixed_dictionaries({
        "kind": st.just("key"), "scheme": st.sampled_from(["http", "https"]), "path": st.sampled_from(["default-vs-kwargs", "kwargs-vs-kwargs", "same", "absent-vs-kwargs0", "absent-vs-kwargs1"]), "how": st.sampled_from(["url", "host", "context"]),
        "base": st.dictionaries(st.sampled_from(names), st.integers(0, 1), max_size=5), "vary": st.one_of(st.none(), st.sampled_from(names)), "spelling": st.booleans(),
        "mgr": st.sampled_from(["pm", "pm", "proxy"]),
    }).map(lambda c: dict(c, spelling=c["spelling"] and c["path"] == "same", how=("url" if c["mgr"] == "proxy" and c["how"] == "context" else c["how"])))


def shards(tier, seed):
    total = sum(1 for _ in enum_cases(tier))
    out = [{"part": "enum", "tier": tier, "lo": a, "hi": b} for a, b in core.split_range(total, 16 if tier == "quick" else 48)]
    n = _scale(5000 if tier == "quick" else 200000)
    nsh = 16 if tier == "quick" else 48
    for i in range(nsh):
        out.append({"part": "random", "n": n // nsh, "seed": core.derive_seed(seed, "r", i)})
    return out


def run_shard(spec):
    col = core.Collector()
    col.extra["derived_keywords"] = universe()
    if spec["part"] == "enum":
        for i, case in enumerate(enum_cases(spec["tier"])):
            if spec["lo"] <= i < spec["hi"]:
                col.case(case, nontrivial(case), classes(case), check_case(case), distinct_by_construction=True)
    else:

        def body(case):
            try:
                col.case(case, nontrivial(case), classes(case), check_case(case))
            except core.InvalidCase:
                col.note("invalid_generated")

        core.hyp_run(_hyp(), spec["n"], spec["seed"], body)
    return col


def presets():
    return [
        {"kind": "key", "scheme": "https", "path": "default-vs-kwargs", "how": "url", "base": {}, "vary": "server_hostname", "spelling": False},
        {"kind": "key", "scheme": "https", "path": "kwargs-vs-kwargs", "how": "host", "base": {"ca_certs": 0}, "vary": "assert_fingerprint", "spelling": False},
        {"kind": "key", "scheme": "http", "path": "same", "how": "url", "base": {}, "vary": None, "spelling": True},
    ]


def min_nontrivial(tier):
    return 500
