"""C08 - certificate name and fingerprint matching accept exactly what the rules allow."""
from __future__ import annotations

import hashlib
import itertools
import os

from vlib import core, refname
from vlib.core import Failure

PROP = "C08"
RULE = (
    "cases: (a) every (SAN DNS name, host) pair of names with 1..K labels over the label alphabet "
    "{a,b,ab,*,a*,*a,a*b,**,xn--a,xn--*,''} (K=2 exhaustive + Hypothesis-sampled 3/4-label pairs in quick; K=3 "
    "exhaustive in thorough), each also with the host upper-cased, and each wildcard name asked again in upper case with the hosts in a very different order (A-label hosts first, the rest backwards) (the verdict is a function of name and host only); (b) Hypothesis SAN lists of <= 3 entries mixing "
    "DNS and 'IP Address' entries, IPv4/IPv6 hosts in bracketed/zoned/non-canonical spellings, commonName with the "
    "flag on/off, (b') the same lists through the connection-level entry point (_ssl_wrap_socket_and_match_hostname with the TLS wrap stubbed) under the settings in which urllib3 matches the name itself: cert_reqs=OPTIONAL, assert_hostname, a context with check_hostname off, a caller context that enables commonName; (c) pins derived from the true MD5/SHA-1/SHA-256 digests of generated DER blobs by case change, "
    "colon insertion, single-nibble flip, truncation/extension by 1..4 nibbles. Non-trivial = the SAN name has a '*', "
    "'xn--' or empty label, or the host is an IP, or CN fallback is in play; for pins: the pin differs from the "
    "canonical lower-case hex digest. Distinct by hash (exhaustive part: by construction)."
)
ASSUMPTIONS = [
    "vlib/refname.py is a correct three-valued reading of RFC 6125 6.4.3 / RFC 9110 4.3.5 (strict subset, liberal superset)",
    "partial wildcards (a*, *a, a*b) and a certificate carrying a multi-wildcard entry before the matching entry are 'either'",
    "stdlib ipaddress decides what an IP literal is; hashlib is the digest reference",
]
EXHAUSTIVE = {"quick": False, "thorough": False}

LABELS = ["a", "b", "ab", "*", "a*", "*a", "a*b", "**", "xn--a", "xn--*", ""]


def _scale(n):
    return max(1, int(n * float(os.environ.get("VERIF_SCALE", "1"))))


def names(k):
    return [".".join(t) for n in range(1, k + 1) for t in itertools.product(LABELS, repeat=n)]


def _call(cert, host, flag, via_wrapper):
    """-> ('accept'|'reject'|'crash', detail)"""
    from urllib3.connection import _match_hostname
    from urllib3.util.ssl_match_hostname import CertificateError, match_hostname

    try:
        if via_wrapper:
            _match_hostname(cert, host, flag)
        else:
            match_hostname(cert, host, flag)
        return "accept", ""
    except CertificateError as e:
        return "reject", str(e)
    except ValueError as e:
        return "reject", f"ValueError {e}"
    except BaseException as e:  # noqa: BLE001
        return "crash", f"{type(e).__name__}: {e}"


def _second_order(nm):
    """A very different order of the same hosts: A-label hosts first, then the rest backwards."""
    return [h for h in nm if h.lower().startswith("xn--")] + [h for h in reversed(nm) if not h.lower().startswith("xn--")]


WIRED_MODES = ["optional", "assert-hostname", "nocheck-ctx", "caller-ctx-cn"]


def _call_wired(cert, host, mode):
    """The same matcher reached the way a connection reaches it: urllib3.connection._ssl_wrap_socket_and_match_hostname
    with the TLS wrap itself stubbed (the peer "presented" the synthetic certificate).  The settings are those under
    which urllib3 matches the name itself; only `caller-ctx-cn` (the caller's own context asks for it) enables commonName.
    -> ('accept'|'reject'|'crash', detail)"""
    import ssl

    import urllib3.connection as uc
    from urllib3.util.ssl_ import create_urllib3_context
    from urllib3.util.ssl_match_hostname import CertificateError

    class _Sock:
        def getpeercert(self, binary_form=False):
            return b"" if binary_form else cert

        def close(self):
            pass

    kw = dict(cert_reqs="CERT_REQUIRED", ssl_version=None, ssl_minimum_version=None, ssl_maximum_version=None, cert_file=None, key_file=None, key_password=None,
              ca_certs=None, ca_cert_dir=None, ca_cert_data=None, assert_hostname=None, assert_fingerprint=None, server_hostname=host, ssl_context=None, tls_in_tls=False)
    if mode == "optional":
        kw["cert_reqs"] = "CERT_OPTIONAL"
    elif mode == "assert-hostname":
        kw["assert_hostname"] = host
        kw["server_hostname"] = "elsewhere.invalid"
    elif mode == "nocheck-ctx":
        c = create_urllib3_context()
        c.check_hostname = False
        kw["ssl_context"] = c
    elif mode == "caller-ctx-cn":
        c = ssl.SSLContext(ssl.PROTOCOL_TLS_CLIENT)
        c.check_hostname = False
        c.hostname_checks_common_name = True
        kw["ssl_context"] = c
    else:
        raise core.InvalidCase
    saved = uc.ssl_wrap_socket
    uc.ssl_wrap_socket = lambda **k: _Sock()
    try:
        uc._ssl_wrap_socket_and_match_hostname(object(), **kw)
        return "accept", ""
    except CertificateError as e:
        return "reject", str(e)
    except ValueError as e:
        return "reject", f"ValueError {e}"
    except BaseException as e:  # noqa: BLE001
        return "crash", f"{type(e).__name__}: {e}"
    finally:
        uc.ssl_wrap_socket = saved


def check_wired(sans, cn, host, mode) -> list[Failure]:
    cert = {}
    if sans:
        cert["subjectAltName"] = tuple((k, v) for k, v in sans)
    if cn is not None:
        cert["subject"] = ((("organizationName", "x"),), (("commonName", cn),))
    if not cert:
        cert["notAfter"] = "x"
    flag = mode == "caller-ctx-cn"
    want = refname.decide([tuple(s) for s in sans], cn, host, flag)
    got, detail = _call_wired(cert, host, mode)
    sig = {"mode": mode}
    if got == "crash":
        return [Failure("clean-reject", {**sig, "exc": detail.split(":")[0]}, f"[connection-level, {mode}] sans={sans} cn={cn} host={host!r}: {detail}")]
    if want == "accept" and got != "accept":
        return [Failure("must-accept", {**sig, "ip": refname.host_ip(host) is not None}, f"[connection-level, {mode}] sans={sans} cn={cn!r} host={host!r}: rejected ({detail})")]
    if want == "reject" and got == "accept":
        kind = "ip" if refname.host_ip(host) is not None else ("cn" if not [s for s in sans if s[0] in ("DNS", "IP Address")] else "dns")
        return [Failure("must-reject", {**sig, "kind": kind}, f"[connection-level, {mode}] sans={sans} cn={cn!r} commonName enabled={flag} host={host!r}: accepted")]
    return []


def check_match(sans, cn, host, flag, via_wrapper=True) -> list[Failure]:
    cert = {}
    if sans:
        cert["subjectAltName"] = tuple((k, v) for k, v in sans)
    if cn is not None:
        cert["subject"] = ((("organizationName", "x"),), (("commonName", cn),))
    if not cert:
        cert["notAfter"] = "x"
    want = refname.decide([tuple(s) for s in sans], cn, host, flag)
    if not via_wrapper and host.startswith("["):
        return []  # the bare util function documents no bracket handling
    got, detail = _call(cert, host, flag, via_wrapper)
    fails = []
    if got == "crash":
        fails.append(Failure("clean-reject", {"exc": detail.split(":")[0]}, f"sans={sans} cn={cn} host={host!r}: {detail}"))
    elif want == "accept" and got != "accept":
        fails.append(Failure("must-accept", {"ip": refname.host_ip(host) is not None}, f"sans={sans} cn={cn!r} flag={flag} host={host!r}: rejected ({detail})"))
    elif want == "reject" and got == "accept":
        kind = "ip" if refname.host_ip(host) is not None else ("cn" if not [s for s in sans if s[0] in ("DNS", "IP Address")] else "dns")
        fails.append(Failure("must-reject", {"kind": kind}, f"sans={sans} cn={cn!r} flag={flag} host={host!r}: accepted"))
    return fails


def check_pin(der: bytes, pin: str) -> list[Failure]:
    from urllib3.exceptions import SSLError
    from urllib3.util.ssl_ import assert_fingerprint

    norm = pin.replace(":", "").lower()
    algo = {32: hashlib.md5, 40: hashlib.sha1, 64: hashlib.sha256}.get(len(norm))
    want = algo is not None and algo(der).hexdigest() == norm
    try:
        assert_fingerprint(der, pin)
        got = True
        detail = ""
    except SSLError as e:
        got = False
        detail = str(e)
    except ValueError as e:  # binascii.Error for non-hex
        got = False
        detail = f"ValueError {e}"
    except BaseException as e:  # noqa: BLE001
        return [Failure("clean-reject", {"exc": type(e).__name__}, f"pin={pin!r}: {type(e).__name__}: {e}")]
    if want and not got:
        return [Failure("pin-must-accept", {"len": len(norm)}, f"pin={pin!r} is the digest of the blob but was rejected: {detail}")]
    if got and not want:
        return [Failure("pin-must-reject", {"len": len(norm)}, f"pin={pin!r} accepted although the selected digest differs / length {len(norm)} is not 32/40/64")]
    return []


def check_case(case) -> list[Failure]:
    k = case.get("kind")
    if k == "order":
        K = 2
        nm = names(K)
        dn = case["dn"]
        if dn not in nm:
            raise core.InvalidCase
        first = {h: _call({"subjectAltName": (("DNS", dn),)}, h, False, False)[0] for h in nm}
        for h in _second_order(nm):
            again = _call({"subjectAltName": (("DNS", dn.upper()),)}, h, False, False)[0]
            if again != first[h]:
                return [Failure("order-dependent", {"first": first[h], "again": again}, f"SAN {dn!r} vs host {h!r}: {first[h]} in enumeration order, {again} for the upper-case spelling asked in another order")]
        return []
    if k == "wired":
        if case.get("mode") not in WIRED_MODES or (case["mode"] == "assert-hostname" and not case["host"]):
            raise core.InvalidCase
        return check_wired([tuple(s) for s in case["sans"]], case.get("cn"), case["host"], case["mode"])
    if k == "match":
        return check_match([tuple(s) for s in case["sans"]], case.get("cn"), case["host"], bool(case.get("flag")), case.get("wrapper", True))
    if k == "pin":
        return check_pin(core.j2b(case["der"]), case["pin"])
    raise core.InvalidCase


def _nontrivial_match(sans, cn, host, flag):
    if refname.host_ip(host) is not None:
        return True
    for kk, v in sans:
        if kk == "DNS" and ("*" in v or "xn--" in v or "" in v.split(".")):
            return True
    if cn is not None and flag:
        return True
    return "" in host.split(".") or "xn--" in host


# ---------------------------------------------------------------- generators

IPS4 = ["1.2.3.4", "1.2.3.5", "127.0.0.1", "10.0.0.1", "0.0.0.1", "0.0.0.0", "0.0.0.2"]
IPS6 = ["::1", "0:0:0:0:0:0:0:1", "0000:0000:0000:0000:0000:0000:0000:0001", "fe80::1", "FE80::1", "fe80:0::1", "::ffff:1.2.3.4", "::ffff:102:304", "2001:db8::a", "2001:DB8:0:0::A", "::2", "::", "::1.2.3.4", "::102:304", "::0.0.0.1"]


def _hyp_matches():
    from hypothesis import strategies as st

    label = st.sampled_from(LABELS + ["A", "Ab", "XN--a", "XN--*", "Xn--*", "c"])
    dnsname = st.lists(label, min_size=1, max_size=4).map(".".join)
    ipval = st.sampled_from(IPS4 + IPS6 + ["1.2.3.4\n", "::1\n", "<invalid>", "01.2.3.4", "1.2.3"])
    san = st.one_of(
        st.tuples(st.just("DNS"), dnsname),
        st.tuples(st.just("DNS"), st.sampled_from(IPS4 + ["::1", "*.2.3.4", "1.2.3.*"])),
        st.tuples(st.just("IP Address"), ipval),
        st.tuples(st.sampled_from(["URI", "email"]), st.just("a.b")),
    )
    sans = st.lists(san, max_size=3)
    iphost = st.builds(
        lambda ip, br, zone: ("[" if br else "") + ip + (zone if ":" in ip else "") + ("]" if br else ""),
        st.sampled_from(IPS4 + IPS6),
        st.booleans(),
        st.sampled_from(["", "", "%eth0", "%25eth0", "%1"]),
    )
    host = st.one_of(dnsname, dnsname, iphost)
    cn = st.one_of(st.none(), dnsname, st.sampled_from(IPS4))
    # bias: make the host derive from one SAN so that accepts are common
    derived = st.builds(
        lambda ss, c, flag, mut: (ss, c, _derive_host(ss, c, mut), flag),
        st.lists(san, min_size=1, max_size=3),
        cn,
        st.booleans(),
        st.integers(0, 7),
    )
    free = st.tuples(sans, cn, host, st.booleans())
    return st.one_of(free, derived)


def _derive_host(ss, cn, mut):
    k, v = ss[mut % len(ss)]
    h = v.rstrip()
    if k == "DNS":
        labs = h.split(".")
        if labs[0] == "*":
            labs[0] = ["a", "b", "ab", "", "xn--a", "a.b"][mut % 6]
        elif "*" in labs[0]:
            labs[0] = labs[0].replace("*", ["", "b", "a", "a.b"][mut % 4])
        h = ".".join(labs)
        if mut >= 4:
            h = h.upper()
    elif k == "IP Address":
        if mut % 3 == 1 and ":" in h:
            h = "[" + h + "]"
        elif mut % 3 == 2 and ":" in h:
            h = h + "%eth0"
    return h


def _hyp_pins():
    from hypothesis import strategies as st

    def build(der, algo, muts):
        hx = {"md5": hashlib.md5, "sha1": hashlib.sha1, "sha256": hashlib.sha256}[algo](der).hexdigest()
        pin = hx
        for kind, a, b in muts:
            if not pin:
                break
            if kind == "upper":
                pin = pin.upper()
            elif kind == "mixed":
                i = a % len(pin)
                pin = pin[:i] + pin[i:].swapcase()
            elif kind == "colon":
                i = a % (len(pin) + 1)
                pin = pin[:i] + ":" + pin[i:]
            elif kind == "colons2":
                pin = ":".join(pin[i : i + 2] for i in range(0, len(pin), 2))
            elif kind == "flip":
                i = a % len(pin)
                if pin[i] in "0123456789abcdefABCDEF":
                    pin = pin[:i] + "0123456789abcdef"[(int(pin[i], 16) + 1 + b % 15) % 16] + pin[i + 1 :]
            elif kind == "trunc":
                pin = pin[: max(0, len(pin) - 1 - a % 4)]
            elif kind == "trunc-front":
                pin = pin[1 + a % 4 :]
            elif kind == "extend":
                pin = pin + "0a1f"[: 1 + a % 4]
            elif kind == "nonhex":
                i = a % len(pin)
                pin = pin[:i] + "g" + pin[i + 1 :]
            elif kind == "space":
                pin = pin + " "
        return {"kind": "pin", "der": core.b2j(der), "pin": pin}

    mut = st.tuples(
        st.sampled_from(["upper", "mixed", "colon", "colons2", "flip", "trunc", "trunc-front", "extend", "nonhex", "space", "upper", "colon", "colons2"]),
        st.integers(0, 200),
        st.integers(0, 200),
    )
    return st.builds(build, st.binary(min_size=0, max_size=40), st.sampled_from(["md5", "sha1", "sha256"]), st.lists(mut, max_size=3))


def shards(tier, seed):
    out = []
    K = 2 if tier == "quick" else 3
    nm = names(K)
    nsh = 16 if tier == "quick" else 128
    for a, b in core.split_range(len(nm), nsh):
        out.append({"part": "pairs", "K": K, "lo": a, "hi": b})
    out.append({"part": "ip-pairs"})
    n1 = _scale(40000 if tier == "quick" else 1000000)
    n2 = _scale(20000 if tier == "quick" else 200000)
    rs = 16 if tier == "quick" else 64
    for i in range(rs):
        out.append({"part": "lists", "n": n1 // rs, "seed": core.derive_seed(seed, "l", i)})
        out.append({"part": "pins", "n": n2 // rs, "seed": core.derive_seed(seed, "p", i)})
        out.append({"part": "wired", "n": n2 // rs, "seed": core.derive_seed(seed, "w", i)})
    return out


def run_shard(spec):
    col = core.Collector()
    part = spec["part"]
    if part == "pairs":
        nm = names(spec["K"])
        for dn in nm[spec["lo"] : spec["hi"]]:
            for host in nm:
                for h in (host, host.upper()) if host.upper() != host else (host,):
                    sans = [("DNS", dn)]
                    fails = check_match(sans, None, h, False, via_wrapper=False)
                    nt = _nontrivial_match(sans, None, h, False)
                    want = refname.decide(sans, None, h, False)
                    col.classes["pairs:" + want] += 1
                    if fails or (nt and want != "reject" and len(col.samples.get("pairs:" + want, [])) < 1):
                        col.case({"kind": "match", "sans": sans, "cn": None, "host": h, "flag": False, "wrapper": False}, nt, ["pairs:" + want], fails, distinct_by_construction=True)
                        col.classes["pairs:" + want] -= 1
                    else:
                        col.evaluations += 1
                        if nt:
                            col.nontrivial_counted += 1
        # ---- the verdict is a function of (name, host) only: the same names spelled in upper case, asked about the hosts
        #      in the opposite order, must get the same answers (names compare case-insensitively)
        for dn in nm[spec["lo"] : spec["hi"]]:
            if "*" not in dn or dn.upper() == dn:
                continue
            first = {h: _call({"subjectAltName": (("DNS", dn),)}, h, False, False)[0] for h in nm}
            for h in _second_order(nm):
                again = _call({"subjectAltName": (("DNS", dn.upper()),)}, h, False, False)[0]
                col.evaluations += 1
                if again != first[h]:
                    case = {"kind": "order", "dn": dn, "host": h, "hosts_before": "all other names of the enumeration, in reverse order"}
                    col.case(case, True, ["pairs:order"], [Failure("order-dependent", {"first": first[h], "again": again}, f"SAN {dn!r} vs host {h!r}: {first[h]} when asked in enumeration order, {again} for the upper-case spelling asked in another order")], distinct_by_construction=True)
                    break
    elif part == "ip-pairs":
        # every IP SAN against every IP host in every spelling (plain, bracketed, zoned, SAN with a trailing newline)
        for san_ip in IPS4 + IPS6:
            for host_ip in IPS4 + IPS6:
                for san_txt in (san_ip, san_ip + "\n", san_ip.upper()):
                    for host in (host_ip, "[" + host_ip + "]") + ((host_ip + "%eth0", "[" + host_ip + "%25eth0]") if ":" in host_ip else ()):
                        sans = [("IP Address", san_txt)]
                        case = {"kind": "match", "sans": sans, "cn": None, "host": host, "flag": False}
                        want = refname.decide(sans, None, host, False)
                        col.case(case, True, ["ip-pairs:" + want], check_match(sans, None, host, False, True), distinct_by_construction=True)
    elif part == "lists":

        def body(t):
            sans, cn, host, flag = t
            sans = [tuple(s) for s in sans]
            want = refname.decide(sans, cn, host, flag)
            fails = check_match(sans, cn, host, flag, True)
            cls = ["lists:" + want]
            if refname.host_ip(host) is not None:
                cls.append("lists:ip-host:" + want)
            if cn is not None and flag and not [s for s in sans if s[0] in ("DNS", "IP Address")]:
                cls.append("lists:cn-fallback:" + want)
            col.case({"kind": "match", "sans": [list(s) for s in sans], "cn": cn, "host": host, "flag": flag}, _nontrivial_match(sans, cn, host, flag), cls, fails)

        core.hyp_run(_hyp_matches(), spec["n"], spec["seed"], body)
    elif part == "wired":
        from hypothesis import strategies as st

        def body(t):
            (sans, cn, host, _flag), mode = t
            if mode == "assert-hostname" and not host:
                mode = "optional"  # an empty assert_hostname means "not set"
            sans = [tuple(s) for s in sans]
            flag = mode == "caller-ctx-cn"
            want = refname.decide(sans, cn, host, flag)
            cls = ["wired:" + mode + ":" + want]
            if cn is not None and not [s for s in sans if s[0] in ("DNS", "IP Address")]:
                cls.append("wired:cn-only:" + mode + ":" + want)
            col.case({"kind": "wired", "sans": [list(s) for s in sans], "cn": cn, "host": host, "mode": mode}, _nontrivial_match(sans, cn, host, flag), cls, check_wired(sans, cn, host, mode))

        core.hyp_run(st.tuples(_hyp_matches(), st.sampled_from(WIRED_MODES)), spec["n"], spec["seed"], body)
    else:

        def body(case):
            fails = check_pin(core.j2b(case["der"]), case["pin"])
            der = core.j2b(case["der"])
            norm = case["pin"].replace(":", "").lower()
            algo = {32: hashlib.md5, 40: hashlib.sha1, 64: hashlib.sha256}.get(len(norm))
            ok = algo is not None and algo(der).hexdigest() == norm
            canon = algo(der).hexdigest() if algo else None
            col.case(case, case["pin"] != canon, ["pins:accept" if ok else "pins:reject"] + (["pins:badlen"] if algo is None else []), fails)

        core.hyp_run(_hyp_pins(), spec["n"], spec["seed"], body)
    return col


def presets():
    return [
        {"kind": "match", "sans": [["DNS", "*.example.com"]], "cn": None, "host": "a.example.com", "flag": False},
        {"kind": "match", "sans": [["DNS", "*.example.com"]], "cn": None, "host": "a.b.example.com", "flag": False},
        {"kind": "match", "sans": [["DNS", "a.*.com"]], "cn": None, "host": "a.b.com", "flag": False},
        {"kind": "match", "sans": [["DNS", "xn--*.com"]], "cn": None, "host": "xn--a.com", "flag": False},
        {"kind": "match", "sans": [["IP Address", "0:0:0:0:0:0:0:1"]], "cn": None, "host": "[::1]", "flag": False},
        {"kind": "match", "sans": [["DNS", "1.2.3.4"]], "cn": None, "host": "1.2.3.4", "flag": False},
        {"kind": "match", "sans": [], "cn": "a.b", "host": "a.b", "flag": False},
        {"kind": "match", "sans": [], "cn": "a.b", "host": "a.b", "flag": True},
        {"kind": "match", "sans": [["DNS", "x.y"]], "cn": "a.b", "host": "a.b", "flag": True},
    ]


def min_nontrivial(tier):
    return 20000
