"""C07 - an HTTPS request is sent only over a connection verified as configured."""
from __future__ import annotations

import hashlib
import itertools
import os
import socket
import ssl
import threading
import warnings

from vlib import core, refname
from vlib.core import Failure

PROP = "C07"
RULE = (
    "a case is one cell of the lattice cert_reqs {unset, 'CERT_REQUIRED', 'REQUIRED', ssl.CERT_REQUIRED, 'CERT_OPTIONAL', "
    "'CERT_NONE', ssl.CERT_NONE} x assert_hostname {unset, False, matching, mismatching} x assert_fingerprint {unset, right "
    "sha256, right sha1 with colons/upper case, wrong, bad length} x server_hostname {unset, matching, mismatching} x "
    "ssl_context {none, create_urllib3_context(), same with check_hostname off, stdlib create_default_context with our CA} x "
    "CA source {ca_certs file, ca_cert_data, none = the OS default store, which SSL_CERT_FILE makes hold the other authority only} x issuer {trusted authority, the other authority} x certificate names {exact, mismatch, wildcard, "
    "IPv4, IPv6, commonName only} x requested host form {lower, UPPER, trailing dot, IPv4, [IPv6], [IPv6%25zone]} x backend "
    "{ssl, pyOpenSSL} x path {direct, http-proxy CONNECT tunnel, https-proxy tunnel = real TLS in TLS with the proxy certificate ok / untrusted / wrong name and the proxy context own / the very object used for the destination, with or without proxy_assert_hostname}; direct cells optionally through a PoolManager that has just served the same origin with weaker per-request settings (pool_kwargs cert_reqs=CERT_NONE / assert_hostname=False). Plus a scheduler part on the null-TLS layer: two pools on two threads share one context object, one pins its peer, the other must still reject a wrong-name peer under every schedule with <= 1 (thorough 2) preemptions. Every cell is a REAL TLS handshake (trustme certificates) over "
    "socket.socketpair() against an in-process server thread that records whether any application byte arrived after the "
    "handshake. Reference decision table (written from the documentation): which of chain / pin / hostname checks the settings "
    "demand and whether the peer passes them. Non-trivial = at least one demanded check fails, or cert_reqs is not REQUIRED."
)
ASSUMPTIONS = [
    "the TLS stacks themselves (OpenSSL via ssl and via pyOpenSSL) and trustme's certificates are trusted; only urllib3's use of them is under test",
    "vlib/refname.py (C08's independent matcher) decides whether a name matches the certificate; cells it calls 'either' carry no hostname expectation",
    "a caller-supplied stdlib context that has check_hostname=True together with cert_reqs=NONE is a configuration error of the ssl module (any exception, no byte sent)",
    "SSL_CERT_FILE / SSL_CERT_DIR (set inside the checking process) define the OS default trust store for both backends",
    "the server thread reports within a 10 s guard; a guard hit is a harness error, never a violation",
]
EXHAUSTIVE = {"quick": False, "thorough": True}

CERT_REQS = ["unset", "CERT_REQUIRED", "REQUIRED", "int_required", "CERT_OPTIONAL", "CERT_NONE", "int_none"]
ASSERT_HOSTNAME = ["unset", "false", "match", "mismatch"]
FINGERPRINT = ["unset", "sha256", "sha1-colons", "wrong", "badlen"]
SERVER_HOSTNAME = ["unset", "match", "mismatch"]
CONTEXTS = ["none", "urllib3", "urllib3-nocheck", "stdlib-default"]
CA_SOURCE = ["ca_certs", "ca_cert_data", "none"]
ISSUER = ["trusted", "untrusted"]
SAN = ["exact", "mismatch", "wildcard", "ipv4", "ipv6", "cn-only"]
HOSTFORM = ["lower", "upper", "dot", "ipv4", "ipv6", "ipv6zone"]
PATHS = ["direct", "tunnel", "tunnel-tls"]
PCERT = ["ok", "untrusted", "wrongname"]
# https proxy: its own context | the SAME context object as the destination's | each with proxy_assert_hostname set
# (urllib3 then switches check_hostname off ON THAT OBJECT and matches the proxy's name itself)
PMODES = ["own", "shared", "own-pah", "shared-pah"]

HOST = {"lower": "www.example.test", "upper": "WWW.Example.TEST", "dot": "www.example.test.", "ipv4": "10.11.12.13", "ipv6": "[fd00::7]", "ipv6zone": "[fe80::7%25eth0]"}
NAME_OF_FORM = {"lower": "www.example.test", "upper": "www.example.test", "dot": "www.example.test", "ipv4": "10.11.12.13", "ipv6": "fd00::7", "ipv6zone": "fe80::7"}

_W: dict = {}


def _scale(n):
    return max(1, int(n * float(os.environ.get("VERIF_SCALE", "1"))))


def world():
    """CAs, server contexts and certificates, created once per process."""
    if _W:
        return _W
    import tempfile

    import trustme

    ca, other = trustme.CA(), trustme.CA()
    d = tempfile.mkdtemp(prefix="c07.", dir=os.path.join(os.path.dirname(os.path.dirname(os.path.abspath(__file__))), ".work")) if os.path.isdir(os.path.join(os.path.dirname(os.path.dirname(os.path.abspath(__file__))), ".work")) else tempfile.mkdtemp(prefix="c07.")
    ca_file = os.path.join(d, "ca.pem")
    ca.cert_pem.write_to_path(ca_file)
    # the OS default trust store of this process: exactly the OTHER authority.  A client that was given CAs of its own must
    # not consult it; a client that was given none (and no context) falls back to it, as documented
    other_file = os.path.join(d, "os-default.pem")
    other.cert_pem.write_to_path(other_file)
    os.makedirs(os.path.join(d, "os-default.d"), exist_ok=True)
    os.environ["SSL_CERT_FILE"] = other_file
    os.environ["SSL_CERT_DIR"] = os.path.join(d, "os-default.d")
    _W.update(ca=ca, other=other, ca_file=ca_file, ca_data=ca.cert_pem.bytes().decode("ascii"), dir=d, certs={})
    return _W


def server_cert(issuer, san, hostform):
    """-> (ssl server context, DER of the leaf, SAN list for the reference, commonName)"""
    w = world()
    key = (issuer, san, hostform if san in ("ipv4", "ipv6") else "")
    if key in w["certs"]:
        return w["certs"][key]
    import trustme

    authority = w["ca"] if issuer == "trusted" else w["other"]
    cn = None
    if san == "exact":
        ids = ["www.example.test"]
    elif san == "mismatch":
        ids = ["other.example.test"]
    elif san == "wildcard":
        ids = ["*.example.test"]
    elif san == "ipv4":
        ids = ["10.11.12.13"]
    elif san == "ipv6":
        ids = ["fd00::7", "fe80::7"]
    else:
        ids, cn = [], "www.example.test"
    cert = authority.issue_cert(*ids, common_name=cn) if ids else authority.issue_cert(common_name=cn)
    ctx = ssl.SSLContext(ssl.PROTOCOL_TLS_SERVER)
    cert.configure_cert(ctx)
    der = ssl.PEM_cert_to_DER_cert(cert.cert_chain_pems[0].bytes().decode("ascii"))
    sans = [("IP Address" if (":" in i or i.replace(".", "").isdigit()) else "DNS", i) for i in ids]
    w["certs"][key] = (ctx, der, sans, cn)
    return w["certs"][key]


class _InnerTLS:
    """Server side of TLS-in-TLS: an SSLObject pumped through the already encrypted outer socket."""

    def __init__(self, sctx, outer):
        self.inb, self.outb = ssl.MemoryBIO(), ssl.MemoryBIO()
        self.obj = sctx.wrap_bio(self.inb, self.outb, server_side=True)
        self.outer = outer

    def _flush(self):
        d = self.outb.read()
        if d:
            self.outer.sendall(d)

    def _pump(self, fn, *a):
        while True:
            try:
                r = fn(*a)
                self._flush()
                return r
            except ssl.SSLWantReadError:
                self._flush()
                data = self.outer.recv(16384)
                if not data:
                    self.inb.write_eof()
                else:
                    self.inb.write(data)

    def handshake(self):
        self._pump(self.obj.do_handshake)

    def recv(self, n):
        try:
            return self._pump(self.obj.read, n)
        except (ssl.SSLZeroReturnError, ssl.SSLEOFError):
            return b""

    def sendall(self, b):
        self._pump(self.obj.write, b)

    def close(self):
        pass


class Peer:
    """Server side of one connection: (optional CONNECT proxy, in clear or over TLS, then) TLS origin."""

    def __init__(self, sctx, tunnel: bool, proxy_sctx=None):
        self.sctx, self.tunnel, self.proxy_sctx = sctx, tunnel, proxy_sctx
        self.client, self.server = socket.socketpair()
        self.app_bytes = b""
        self.connect_line = None
        self.handshake = None
        self.proxy_handshake = None
        self.error = None
        self.thread = threading.Thread(target=self._run, daemon=True)
        self.thread.start()

    def _run(self):
        s = self.server
        try:
            s.settimeout(8)
            chan = s
            if self.proxy_sctx is not None:
                try:
                    chan = self.proxy_sctx.wrap_socket(s, server_side=True)
                    self.proxy_handshake = True
                except (ssl.SSLError, OSError) as e:
                    self.proxy_handshake = False
                    self.error = repr(e)
                    return
            if self.tunnel:
                buf = b""
                while b"\r\n\r\n" not in buf:
                    try:
                        chunk = chan.recv(4096)
                    except (ssl.SSLError, OSError) as e:
                        self.error = repr(e)
                        return
                    if not chunk:
                        return
                    buf += chunk
                self.connect_line = buf.split(b"\r\n")[0]
                chan.sendall(b"HTTP/1.1 200 Connection established\r\n\r\n")
            try:
                if self.proxy_sctx is not None:
                    tls = _InnerTLS(self.sctx, chan)
                    tls.handshake()
                else:
                    tls = self.sctx.wrap_socket(s, server_side=True)
                self.handshake = True
            except (ssl.SSLError, OSError) as e:
                self.handshake = False
                self.error = repr(e)
                return
            try:
                while True:
                    # (requests without a body; every one is answered, so that a kept-alive connection can be used again)
                    buf = b""
                    while b"\r\n\r\n" not in buf:
                        chunk = tls.recv(4096)
                        if not chunk:
                            break
                        buf += chunk
                    self.app_bytes += buf
                    if b"\r\n\r\n" not in buf:
                        break
                    # keep-alive: http.client must not close (and thereby reset) the connection before it is inspected
                    tls.sendall(b"HTTP/1.1 200 OK\r\nContent-Length: 2\r\n\r\nok")
            except (ssl.SSLError, OSError) as e:
                self.error = repr(e)
            finally:
                try:
                    tls.close()
                except Exception:  # noqa: BLE001
                    pass
        finally:
            try:
                s.close()
            except Exception:  # noqa: BLE001
                pass

    def join(self):
        self.thread.join(10)
        if self.thread.is_alive():
            raise core.HarnessError("TLS server thread did not finish within 10 s")


def proxy_cert(kind):
    w = world()
    key = ("proxy", kind)
    if key not in w["certs"]:
        authority = w["ca"] if kind != "untrusted" else w["other"]
        cert = authority.issue_cert("proxy.test" if kind != "wrongname" else "other-proxy.invalid")
        ctx = ssl.SSLContext(ssl.PROTOCOL_TLS_SERVER)
        cert.configure_cert(ctx)
        w["certs"][key] = ctx
    return w["certs"][key]


def reference(case, cn_enabled_by_context):
    """What the settings demand and whether this peer passes. -> dict"""
    _, _, sans, cn = server_cert(case["issuer"], case["san"], case["hostform"])
    ctx_kind = case["ctx"]
    cr = case["cert_reqs"]
    if cr == "unset":
        eff = "REQUIRED"  # every context variant used here has verify_mode CERT_REQUIRED
    else:
        eff = "NONE" if "none" in cr.lower() else ("OPTIONAL" if "OPTIONAL" in cr else "REQUIRED")
    config_error = ctx_kind in ("urllib3", "stdlib-default") and eff == "NONE" and case["backend"] == "ssl"
    # urllib3 applies the destination's cert_reqs to the TLS leg towards an https proxy as well; the proxy context used
    # here has check_hostname on, so cert_reqs=NONE is the same contradictory configuration there
    # (unless the proxy leg runs on the caller's own context with check_hostname off: then cert_reqs=NONE simply means
    #  that the proxy is not verified either)
    proxy_unverified = case["path"] == "tunnel-tls" and eff == "NONE" and case.get("pmode", "own").startswith("shared") and ctx_kind == "urllib3-nocheck"
    config_error = config_error or (case["path"] == "tunnel-tls" and eff == "NONE" and not proxy_unverified)
    pin = case["fp"] != "unset"
    chain_demanded = eff != "NONE"
    # which CAs does the client know?
    has_ca = case["ca"] != "none" or ctx_kind == "stdlib-default"
    # no CA setting and no caller context: urllib3 loads the OS default store, which here holds the other authority only
    # (the pyOpenSSL context has no load_default_certs(): with that backend and no CA setting nothing is trusted)
    os_default = case["ca"] == "none" and ctx_kind == "none" and case["backend"] == "ssl"
    chain_ok = (case["issuer"] == "trusted" and has_ca) or (case["issuer"] == "untrusted" and os_default)
    pin_ok = case["fp"] in ("sha256", "sha1-colons")
    host_demanded = (not pin) and case["ah"] != "false" and eff != "NONE"
    url_name = NAME_OF_FORM[case["hostform"]]
    if case["ah"] == "match":
        name = "www.example.test" if case["san"] not in ("ipv4", "ipv6") else ("10.11.12.13" if case["san"] == "ipv4" else "fd00::7")
    elif case["ah"] == "mismatch":
        name = "nomatch.invalid"
    elif case["sh"] == "match":
        name = "www.example.test" if case["san"] not in ("ipv4", "ipv6") else ("10.11.12.13" if case["san"] == "ipv4" else "fd00::7")
    elif case["sh"] == "mismatch":
        name = "nomatch.invalid"
    else:
        name = url_name
    verdict = refname.decide(sans, cn, name, cn_enabled_by_context)
    return {"eff": eff, "config_error": config_error, "chain_demanded": chain_demanded, "chain_ok": chain_ok, "pin": pin, "pin_ok": pin_ok, "host_demanded": host_demanded,
            "host_verdict": verdict, "name": name, "verified_label": eff == "REQUIRED" or pin, "proxy_unverified": proxy_unverified}


def _validate(case):
    fields = (("cert_reqs", CERT_REQS), ("ah", ASSERT_HOSTNAME), ("fp", FINGERPRINT), ("sh", SERVER_HOSTNAME), ("ctx", CONTEXTS), ("ca", CA_SOURCE), ("issuer", ISSUER), ("san", SAN), ("hostform", HOSTFORM), ("path", PATHS), ("backend", ["ssl", "pyopenssl"]))
    if case.get("kind") != "tls" or any(case.get(k) not in dom for k, dom in fields):
        raise core.InvalidCase
    if case["backend"] == "pyopenssl" and (case["ctx"] in ("stdlib-default", "urllib3-nocheck") or case["path"] == "tunnel-tls"):
        raise core.InvalidCase
    if case.get("pcert", "ok") not in PCERT or (case.get("pcert", "ok") != "ok" and case["path"] != "tunnel-tls"):
        raise core.InvalidCase
    if case.get("warm") not in (None, "cert-none", "ah-false") or (case.get("warm") and (case["path"] != "direct" or case["backend"] != "ssl" or case["ctx"] != "none")):
        raise core.InvalidCase
    pm = case.get("pmode", "own")
    if pm not in PMODES or (pm != "own" and case["path"] != "tunnel-tls"):
        raise core.InvalidCase
    if pm.startswith("shared") and (case["ctx"] == "none" or (case["ca"] == "none" and case["ctx"] != "stdlib-default")):
        raise core.InvalidCase  # one context object for both legs: there must be one, and it must know the proxy's CA


def run_case(case) -> list[Failure]:
    import urllib3
    import urllib3.util.connection as uconn
    from urllib3 import exceptions as ue
    from urllib3.util.ssl_ import create_urllib3_context

    _validate(case)
    w = world()
    sctx, der, sans, cn = server_cert(case["issuer"], case["san"], case["hostform"])
    host = HOST[case["hostform"]]
    kw: dict = {}
    cr = case["cert_reqs"]
    if cr != "unset":
        kw["cert_reqs"] = {"int_required": ssl.CERT_REQUIRED, "int_none": ssl.CERT_NONE}.get(cr, cr)
    if case["ca"] == "ca_certs":
        kw["ca_certs"] = w["ca_file"]
    elif case["ca"] == "ca_cert_data":
        # PEM text for the stdlib backend (bytes would mean DER there); the pyOpenSSL context documents bytes
        kw["ca_cert_data"] = w["ca_data"] if case["backend"] == "ssl" else w["ca_data"].encode("ascii")
    if case["ah"] == "false":
        kw["assert_hostname"] = False
    elif case["ah"] in ("match", "mismatch"):
        kw["assert_hostname"] = reference(case, False)["name"] if case["ah"] == "match" else "nomatch.invalid"
    fp = case["fp"]
    if fp == "sha256":
        kw["assert_fingerprint"] = hashlib.sha256(der).hexdigest()
    elif fp == "sha1-colons":
        h = hashlib.sha1(der).hexdigest().upper()
        kw["assert_fingerprint"] = ":".join(h[i : i + 2] for i in range(0, len(h), 2))
    elif fp == "wrong":
        kw["assert_fingerprint"] = hashlib.sha256(der + b"x").hexdigest()
    elif fp == "badlen":
        kw["assert_fingerprint"] = hashlib.sha256(der).hexdigest()[:-2]
    if case["sh"] == "match":
        kw["server_hostname"] = "www.example.test" if case["san"] not in ("ipv4", "ipv6") else ("10.11.12.13" if case["san"] == "ipv4" else "fd00::7")
    elif case["sh"] == "mismatch":
        kw["server_hostname"] = "nomatch.invalid"
    cn_enabled = False
    if case["ctx"] == "urllib3":
        kw["ssl_context"] = create_urllib3_context()
    elif case["ctx"] == "urllib3-nocheck":
        c = create_urllib3_context()
        c.check_hostname = False
        kw["ssl_context"] = c
    elif case["ctx"] == "stdlib-default":
        c = ssl.create_default_context(cafile=w["ca_file"])
        kw["ssl_context"] = c
    if "ssl_context" in kw:
        cn_enabled = bool(getattr(kw["ssl_context"], "hostname_checks_common_name", False))
    ref = reference(case, cn_enabled)
    tunnel = case["path"] in ("tunnel", "tunnel-tls")
    pcert = case.get("pcert", "ok")
    psctx = proxy_cert(pcert) if case["path"] == "tunnel-tls" else None
    peers: list = []

    def fake_create_connection(address, *a, **k):
        p = Peer(sctx, tunnel, psctx)
        peers.append(p)
        return p.client

    saved = uconn.create_connection
    import urllib3.connection as ucn

    saved2 = ucn.connection.create_connection
    ucn.connection.create_connection = fake_create_connection
    uconn.create_connection = fake_create_connection
    fails: list[Failure] = []
    sig = {"backend": case["backend"], "path": case["path"]}
    result = exc = None
    is_verified = None
    warned = False
    n_warm = w_mark = 0
    try:
        with warnings.catch_warnings(record=True) as wlist:
            warnings.simplefilter("always")
            try:
                if case["path"] == "tunnel-tls":
                    pmode = case.get("pmode", "own")
                    if pmode.startswith("shared"):
                        pctx = kw["ssl_context"]
                    else:
                        pctx = create_urllib3_context()
                        pctx.load_verify_locations(cafile=w["ca_file"])
                    pkw = {"proxy_assert_hostname": "proxy.test"} if pmode.endswith("pah") else {}
                    obj = urllib3.ProxyManager("https://proxy.test:3128", retries=False, proxy_ssl_context=pctx, **pkw, **kw)
                    url = f"https://{host}:8443/secret-path"
                elif tunnel:
                    obj = urllib3.ProxyManager("http://proxy.test:3128", retries=False, **kw)
                    url = f"https://{host}:8443/secret-path"
                elif case.get("warm"):
                    # one PoolManager serves the judged request AFTER a request to the same origin that asked, through
                    # pool_kwargs, for weaker settings: the judged request must not travel under those
                    obj = urllib3.PoolManager(retries=False, **kw)
                    url = f"https://{host}:8443/secret-path"
                    wkw = {"cert_reqs": ssl.CERT_NONE, "assert_hostname": False} if case["warm"] == "cert-none" else {"assert_hostname": False}
                    try:
                        obj.connection_from_url(url, pool_kwargs=wkw).urlopen("GET", "/warmup", retries=False).data
                    except Exception:  # noqa: BLE001 - whatever the weaker request does is not judged
                        pass
                    n_warm, w_mark = len(peers), len(wlist)
                else:
                    obj = urllib3.HTTPSConnectionPool(host.strip("[]") if False else host, 8443, retries=False, **kw)
                    url = "/secret-path"
                r = conn = None
                try:
                    r = obj.urlopen("GET", url, preload_content=False, release_conn=False, headers={"Authorization": "Bearer SECRET"})
                    conn = r.connection
                    is_verified = getattr(conn, "is_verified", None)
                    result = (r.status, r.read())
                    r.release_conn()
                except BaseException as e:  # noqa: BLE001
                    if type(e).__name__ == "CaseTimeout":
                        raise
                    e.__traceback__ = None
                    exc = e
                finally:
                    try:
                        r = conn = None
                        if tunnel or case.get("warm"):
                            for k0 in list(obj.pools.keys()):
                                pl = obj.pools._container.get(k0)
                                if pl is not None:
                                    pl.close()  # clear() alone leaves the sockets to the garbage collector
                            obj.clear()
                        else:
                            obj.close()
                    except Exception:  # noqa: BLE001
                        pass
            except (ValueError, TypeError) as e:  # constructing the pool itself rejected the configuration
                exc = e
            warned = any(issubclass(x.category, ue.InsecureRequestWarning) for x in wlist[w_mark:])
    finally:
        uconn.create_connection = saved
        ucn.connection.create_connection = saved2
    for p in peers:
        p.join()
    app = b"".join(p.app_bytes for p in peers)
    if case.get("warm") and b"secret-path" not in app:
        app = b""  # only the warm-up request was transmitted
    client_open = [p for p in peers[n_warm:] if p.client.fileno() != -1]

    def brief():
        return (f"{ {k: v for k, v in case.items() if k != 'kind'} } reference={ref} -> {('status %s' % (result,)) if result else type(exc).__name__ + ': ' + str(exc)[:160]} "
                f"server saw {len(app)} application bytes, handshakes {[(p.proxy_handshake, p.handshake) for p in peers]}, is_verified={is_verified}, warned={warned}")

    demanded_fail = []
    if pcert != "ok" and not ref["proxy_unverified"]:
        demanded_fail.append("proxy-" + pcert)
        if any(p.connect_line for p in peers):
            fails.append(Failure("bytes-sent", {**sig, "failed": "proxy-" + pcert, "what": "connect-line"}, f"CONNECT was sent to a proxy whose certificate is {pcert}: {brief()}"))
    if ref["chain_demanded"] and not ref["chain_ok"]:
        demanded_fail.append("chain")
    if ref["pin"] and not ref["pin_ok"]:
        demanded_fail.append("pin")
    host_unknown = ref["host_demanded"] and ref["host_verdict"] == "either"
    if ref["host_demanded"] and ref["host_verdict"] == "reject":
        demanded_fail.append("hostname")
    if ref["config_error"]:
        if app:
            fails.append(Failure("bytes-sent", {**sig, "what": "config-error"}, f"a contradictory configuration still sent application bytes: {brief()}"))
        return fails
    # ---- safety: no application byte unless every demanded check passes
    if app and demanded_fail:
        fails.append(Failure("bytes-sent", {**sig, "failed": "+".join(demanded_fail), "ctx": case["ctx"], "cert_reqs": ref["eff"]}, f"the request was transmitted although the {demanded_fail} check demanded by the settings fails: {brief()}"))
    # ---- failure shape
    if demanded_fail:
        reason = exc.reason if isinstance(exc, ue.MaxRetryError) else exc
        if isinstance(reason, ue.ProxyError) and reason.original_error is not None:
            reason = reason.original_error
        if exc is None:
            if not app:
                fails.append(Failure("no-error", {**sig, "failed": "+".join(demanded_fail)}, f"a demanded check fails but no error was raised: {brief()}"))
        elif not isinstance(reason, ue.SSLError) and not (pcert != "ok" and isinstance(exc.reason if isinstance(exc, ue.MaxRetryError) else exc, ue.ProxyError)):
            fails.append(Failure("error-type", {**sig, "exc": type(reason).__name__, "failed": "+".join(demanded_fail)}, f"expected SSLError: {brief()}"))
        if client_open:
            fails.append(Failure("socket-open", {**sig, "failed": "+".join(demanded_fail)}, f"the client socket is still open after the failed check: {brief()}"))
    elif not host_unknown and not (case["backend"] == "pyopenssl" and case["ca"] == "ca_cert_data"):
        # ---- liveness: every demanded check passes => the request succeeds
        # (not asserted for ca_cert_data alone under pyOpenSSL: the installed pyOpenSSL refuses
        #  load_verify_locations(None, None), which urllib3's contrib context calls first - fails closed)
        if exc is not None or result is None or result[0] != 200:
            fails.append(Failure("spurious-failure", {**sig, "exc": type(exc).__name__ if exc else "status", "ctx": case["ctx"], "san": case["san"]}, f"every demanded check passes but the request failed: {brief()}"))
    # ---- labelling
    if result is not None and not demanded_fail and not host_unknown:
        if bool(is_verified) != ref["verified_label"]:
            fails.append(Failure("label", {**sig, "what": "is_verified", "got": bool(is_verified)}, f"is_verified={is_verified}, expected {ref['verified_label']}: {brief()}"))
        if warned != (not ref["verified_label"]):
            fails.append(Failure("label", {**sig, "what": "warning", "warned": warned}, f"InsecureRequestWarning {'emitted' if warned else 'missing'}, connection {'is' if ref['verified_label'] else 'is not'} validated: {brief()}"))
    return fails


def check_case(case):
    if case.get("kind") == "ctxrace":
        if case.get("pin") not in ("assert_hostname", "assert_hostname_false"):
            raise core.InvalidCase
        dec = {int(i): int(t) for i, t in case.get("decisions", [])}
        s, obs = run_ctxrace(decisions=dec, pin=case["pin"])
        return check_ctxrace(case, s, obs)
    backend = case.get("backend")
    if backend == "pyopenssl":
        import urllib3.contrib.pyopenssl as po

        po.inject_into_urllib3()
        try:
            res, timed_out = core.guarded(run_case, case)
        finally:
            po.extract_from_urllib3()
    else:
        res, timed_out = core.guarded(run_case, case)
    if timed_out:
        raise core.HarnessError(f"TLS case did not finish: {case}")
    return res


def nontrivial(case):
    r = reference(case, False)
    return r["eff"] != "REQUIRED" or (r["chain_demanded"] and not r["chain_ok"]) or (r["pin"] and not r["pin_ok"]) or (r["host_demanded"] and r["host_verdict"] == "reject")


def classes(case):
    r = reference(case, False)
    out = ["backend:" + case["backend"], "path:" + case["path"], "pcert:" + case.get("pcert", "ok"), "pmode:" + case.get("pmode", "own"), "warm:" + str(case.get("warm")), "cert_reqs:" + r["eff"], "ctx:" + case["ctx"], "san:" + case["san"], "host:" + case["hostform"], "fp:" + case["fp"], "ah:" + case["ah"], "sh:" + case["sh"], "ca:" + case["ca"], "issuer:" + case["issuer"]]
    if r["config_error"]:
        out.append("config-error")
    return out


def coherent(c):
    """Prune cells that make no sense (IP host form only with an IP certificate or a mismatch, ...)."""
    if c["hostform"] in ("ipv4",) and c["san"] not in ("ipv4", "mismatch", "exact"):
        return False
    if c["hostform"] in ("ipv6", "ipv6zone") and c["san"] not in ("ipv6", "mismatch"):
        return False
    if c["san"] == "ipv4" and c["hostform"] not in ("ipv4", "lower"):
        return False
    if c["san"] == "ipv6" and c["hostform"] not in ("ipv6", "ipv6zone", "lower"):
        return False
    if c["backend"] == "pyopenssl" and (c["ctx"] in ("stdlib-default", "urllib3-nocheck") or c["path"] == "tunnel-tls"):
        return False
    if c.get("pcert", "ok") != "ok" and c["path"] != "tunnel-tls":
        return False
    return True


def lattice(backend):
    for cr, ah, fp, sh, ctx, ca, issuer, san, hf, path in itertools.product(CERT_REQS, ASSERT_HOSTNAME, FINGERPRINT, SERVER_HOSTNAME, CONTEXTS, CA_SOURCE, ISSUER, SAN, HOSTFORM, PATHS):
        for pc in (PCERT if path == "tunnel-tls" else ["ok"]):
            c = {"kind": "tls", "cert_reqs": cr, "ah": ah, "fp": fp, "sh": sh, "ctx": ctx, "ca": ca, "issuer": issuer, "san": san, "hostform": hf, "path": path, "backend": backend, "pcert": pc}
            if coherent(c):
                yield c


def pairwise_core(backend):
    """A much smaller but systematic sub-lattice: every value of every axis against every value of the security axes."""
    base = {"kind": "tls", "cert_reqs": "unset", "ah": "unset", "fp": "unset", "sh": "unset", "ctx": "none", "ca": "ca_certs", "issuer": "trusted", "san": "exact", "hostform": "lower", "path": "direct", "backend": backend}
    axes = {"cert_reqs": CERT_REQS, "ah": ASSERT_HOSTNAME, "fp": FINGERPRINT, "sh": SERVER_HOSTNAME, "ctx": CONTEXTS, "ca": CA_SOURCE, "issuer": ISSUER, "san": SAN, "hostform": HOSTFORM, "path": PATHS}
    if backend == "ssl":
        for pc in PCERT[1:]:
            for cr, ctx, issuer, san in itertools.product(CERT_REQS, CONTEXTS, ISSUER, ("exact", "mismatch")):
                yield dict(base, path="tunnel-tls", pcert=pc, cert_reqs=cr, ctx=ctx, issuer=issuer, san=san)
        for warm in ("cert-none", "ah-false"):
            for cr, ca, issuer, san, sh in itertools.product(("unset", "CERT_REQUIRED", "CERT_OPTIONAL"), ("ca_certs", "ca_cert_data"), ISSUER, ("exact", "mismatch", "cn-only", "wildcard"), ("unset", "mismatch")):
                yield dict(base, warm=warm, cert_reqs=cr, ca=ca, issuer=issuer, san=san, sh=sh)
        for pmode in PMODES[1:]:
            for cr, ctx, issuer, san, ah, pc in itertools.product(("unset", "CERT_OPTIONAL"), CONTEXTS[1:] if pmode.startswith("shared") else CONTEXTS, ISSUER, ("exact", "mismatch", "cn-only"), ("unset", "false", "mismatch"), PCERT):
                yield dict(base, path="tunnel-tls", pcert=pc, pmode=pmode, cert_reqs=cr, ctx=ctx, issuer=issuer, san=san, ah=ah)
    names = list(axes)
    seen = set()
    for a, b, c3 in itertools.combinations(names, 3):
        if not ({a, b, c3} & {"cert_reqs", "ah", "fp", "ctx", "issuer", "san"}):
            continue
        for va, vb, vc in itertools.product(axes[a], axes[b], axes[c3]):
            c = dict(base, **{a: va, b: vb, c3: vc})
            k = core.canon(c)
            if k not in seen and coherent(c):
                seen.add(k)
                yield c


# --------------------------------------------------------------------------- one SSLContext shared by two threads


def run_ctxrace(decisions=None, random_seq=None, pin="assert_hostname"):
    """Two pools on two threads share ONE caller-supplied context (null-TLS layer, owned scheduler). Pool A pins its peer
    (assert_hostname / assert_fingerprint), which makes urllib3 switch check_hostname off ON THAT OBJECT; pool B uses default
    settings against a server whose certificate names another host.  Under every schedule B's request must not be sent."""
    import urllib3
    from urllib3 import exceptions as ue

    from vlib import fakenet, nulltls, sched, world

    nulltls.reset()
    w = world.World(handler=lambda wd, entry: {"status": 200})
    good = nulltls.Identity([("DNS", "good.test")], label="good")
    w.add_origin("https", "good.test", 443, identity=good)
    w.add_origin("https", "bad.test", 443, identity=nulltls.Identity([("DNS", "other.test")], label="wrong-name"))
    ctx = nulltls.NullTLSContext("shared")
    net = fakenet.Net(w)
    net.install()
    res: dict = {}
    try:
        kwa = {"assert_hostname": "good.test"} if pin == "assert_hostname" else {"assert_hostname": False}
        pa = urllib3.HTTPSConnectionPool("good.test", 443, ssl_context=ctx, retries=False, **kwa)
        pb = urllib3.HTTPSConnectionPool("bad.test", 443, ssl_context=ctx, retries=False)
        s = sched.Scheduler(decisions=decisions, random_seq=random_seq, targets=[("connection.py", "_ssl_wrap_socket_and_match_hostname"), ("connection.py", "connect")])

        def req(name, pool, path):
            def run():
                try:
                    r = pool.urlopen("GET", path)
                    res[name] = ("ok", r.status)
                except sched.SchedAbort:
                    raise
                except BaseException as e:  # noqa: BLE001
                    res[name] = ("err", type(e).__name__, isinstance(e, ue.HTTPError))
            return run

        s.spawn("pinned", req("a", pa, "/a"))
        s.spawn("default", req("b", pb, "/secret"))
        s.run()
        sent = [e for e in w.log if e["route"] != "connect" and e["target"] == "/secret"]
        pa.close()
        pb.close()
    finally:
        net.uninstall()
    return s, (res, sent)


def check_ctxrace(case, s, obs):
    res, sent = obs
    sig = {"part": "ctxrace", "pin": case.get("pin", "assert_hostname")}
    brief = f"{ {k: v for k, v in case.items() if k != 'kind'} } schedule={s.taken} results={res}"
    if s.deadlock or s.runaway:
        return [Failure("ctxrace-deadlock", sig, f"deadlock {s.deadlock}: {brief}")]
    fails = []
    if sent:
        fails.append(Failure("bytes-sent", {**sig, "failed": "hostname", "what": "shared-context-race"}, f"the default-settings request reached a server whose certificate names another host: {brief}"))
    b = res.get("b")
    if b is None or b[0] == "ok":
        if not sent:
            fails.append(Failure("no-error", {**sig, "failed": "hostname"}, f"no error for the mismatching peer: {brief}"))
    elif not b[2]:
        fails.append(Failure("error-type", {**sig, "exc": b[1], "failed": "hostname"}, f"not a urllib3 error: {brief}"))
    a = res.get("a")
    if a is None or a[0] != "ok":
        fails.append(Failure("spurious-failure", {**sig, "exc": a[1] if a else "none", "ctx": "shared", "san": "exact"}, f"the pinned request to the good peer failed: {brief}"))
    return fails


def shards(tier, seed):
    out = [{"part": "ctxrace", "backend": "ssl", "pin": pin, "bound": 1 if tier == "quick" else 2} for pin in ("assert_hostname", "assert_hostname_false")]
    for backend in ("ssl", "pyopenssl"):
        if tier == "quick":
            n = sum(1 for _ in pairwise_core(backend))
            for a, b in core.split_range(n, 16):
                out.append({"part": "core", "backend": backend, "lo": a, "hi": b, "stride": 1, "offset": 0})
            for i in range(8):
                out.append({"part": "sample", "backend": backend, "n": _scale(400), "seed": core.derive_seed(seed, backend, i)})
        else:
            n = sum(1 for _ in pairwise_core(backend))
            for a, b in core.split_range(n, 32):
                out.append({"part": "core", "backend": backend, "lo": a, "hi": b, "stride": 1, "offset": 0})
            total = sum(1 for _ in lattice(backend))
            for a, b in core.split_range(total, 64):
                out.append({"part": "lattice", "backend": backend, "lo": a, "hi": b, "stride": 1, "offset": 0})
    return out


def run_shard(spec):
    col = core.Collector()
    backend = spec["backend"]
    if spec["part"] == "ctxrace":
        from vlib import sched

        base = {"kind": "ctxrace", "pin": spec["pin"]}

        def make_run(decisions, rs):
            s, obs = run_ctxrace(decisions=decisions, pin=spec["pin"])
            return s, check_ctxrace(base, s, obs)

        for decisions, s, fails in sched.explore(make_run, spec["bound"], max_runs=20000):
            case = dict(base, decisions=sorted([list(x) for x in decisions.items()]))
            col.case(case, any(t[4] for t in s.taken), ["ctxrace", "ctxrace:" + spec["pin"], "preemptions:%d" % sum(1 for t in s.taken if t[4])], fails, distinct_by_construction=True)
        return col
    if backend == "pyopenssl":
        import urllib3.contrib.pyopenssl as po

        po.inject_into_urllib3()
    try:
        def ev(case, distinct):
            res, timed_out = core.guarded(run_case, case)
            if timed_out:
                raise core.HarnessError(f"TLS case did not finish: {case}")
            col.case(case, nontrivial(case), classes(case), res, distinct_by_construction=distinct)

        if spec["part"] in ("core", "lattice"):
            gen = pairwise_core(backend) if spec["part"] == "core" else lattice(backend)
            for i, case in enumerate(gen):
                if spec["lo"] <= i < spec["hi"] and i % spec["stride"] == spec["offset"] % spec["stride"]:
                    ev(case, True)
        else:
            from hypothesis import strategies as st

            strat = st.fixed_dictionaries({"kind": st.just("tls"), "cert_reqs": st.sampled_from(CERT_REQS), "ah": st.sampled_from(ASSERT_HOSTNAME), "fp": st.sampled_from(FINGERPRINT + ["unset", "unset"]),
                                           "sh": st.sampled_from(SERVER_HOSTNAME), "ctx": st.sampled_from(CONTEXTS), "ca": st.sampled_from(CA_SOURCE), "issuer": st.sampled_from(ISSUER + ["trusted"]),
                                           "san": st.sampled_from(SAN), "hostform": st.sampled_from(HOSTFORM), "path": st.sampled_from(PATHS), "backend": st.just(backend), "pcert": st.sampled_from(["ok", "ok", "ok", "untrusted", "wrongname"]), "pmode": st.sampled_from(PMODES), "warm": st.sampled_from([None, None, None, "cert-none", "ah-false"])}).map(lambda c: c if (c["path"] == "direct" and c["backend"] == "ssl" and c["ctx"] == "none") else {k: v for k, v in c.items() if k != "warm"}).map(lambda c: dict(c, pcert="ok", pmode="own") if c["path"] != "tunnel-tls" else (dict(c, pmode=c["pmode"].replace("shared", "own")) if c["pmode"].startswith("shared") and (c["ctx"] == "none" or (c["ca"] == "none" and c["ctx"] != "stdlib-default")) else c))

            def body(case):
                if coherent(case):
                    ev(case, False)
                else:
                    col.note("incoherent_skipped")

            core.hyp_run(strat, spec["n"], spec["seed"], body)
    finally:
        if backend == "pyopenssl":
            po.extract_from_urllib3()
    return col


def presets():
    base = {"kind": "tls", "cert_reqs": "unset", "ah": "unset", "fp": "unset", "sh": "unset", "ctx": "none", "ca": "ca_certs", "issuer": "trusted", "san": "exact", "hostform": "lower", "path": "direct", "backend": "ssl"}
    return [base, dict(base, san="mismatch"), dict(base, issuer="untrusted"), dict(base, ctx="urllib3-nocheck", san="mismatch"), dict(base, path="tunnel", cert_reqs="CERT_NONE"), dict(base, fp="wrong", cert_reqs="CERT_NONE")]


NO_SHRINK = True


def min_nontrivial(tier):
    return 800
