#!/bin/bash
# usage: tools/reintake.sh Cxx A|B  - re-confirms a seed that is already stored under seeded/ (demo, pinned suite, our check)
prop="$1"; v="$2"
here="$(cd "$(dirname "$0")/.." && pwd)"
mkdir -p "/tmp/wt/$prop/OUT/$v"
cp "$here/seeded/$prop-$v/patch.diff" "$here/seeded/$prop-$v/demo.py" "/tmp/wt/$prop/OUT/$v/" || exit 3
cp "$here/seeded/$prop-$v/notes.md" "/tmp/wt/$prop/OUT/$v/" 2>/dev/null
exec "$here/tools/intake.sh" "$prop" "$v"
