#!/bin/bash
# Offline setup: make sure hypothesis is importable in /venv and atheris is in /verif/.deps.
here="$(cd "$(dirname "$0")" && pwd)"
cd "$here"
export PIP_NO_INDEX=1
/venv/bin/python -c "import hypothesis" 2>/dev/null || \
  /venv/bin/pip install --no-index --find-links /opt/veriftools/wheels hypothesis || exit 1
if [ ! -d "$here/.deps/atheris" ]; then
  /venv/bin/pip install -q --no-index --find-links /opt/veriftools/wheels --target "$here/.deps" atheris \
    || echo "setup: atheris not installable; atheris campaigns will be skipped (reported in evidence)"
fi
mkdir -p evidence replays .work
/venv/bin/python -c "import hypothesis, sys; print('setup ok: hypothesis', hypothesis.__version__)"
