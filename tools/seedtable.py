#!/venv/bin/python
"""Prints the markdown table of independently seeded changes (seeded/*/meta.json + the short descriptions below)."""
import glob, json, os

HERE = os.path.dirname(os.path.dirname(os.path.abspath(__file__)))
DESC = {
    "C01-H": ("`retries.sleep()` moved before `response.drain_conn()` in the status-retry branch", "`preload_content=False`/`release_conn=False` + retried 503 with Retry-After + KeyboardInterrupt inside the pause"),
    "C04-H": ("`_is_connection_error` true for every `ProxyError`", "proxy + non-connect failure towards the proxy (TLS) + `other` budget different from `connect`"),
    "C05-H": ("connection-error retry recursion drops `redirect`", "`redirect=False` + broken first attempt + 3xx on the re-sent attempt"),
    "C06-H": ("`if not kw.get(\"headers\")` re-installs manager defaults", "manager default headers carry credentials, hop headers all strippable, cross-origin redirect"),
    "C09-H": ("proxy headers merged in place unless the mapping is the pool's own", "forwarded request whose headers mapping is reused for a tunnelled one (redirect http -> https)"),
    "C12-H": ("`x-gzip` alias applied only when it is the whole Content-Encoding value", "two-coding stack that spells one member `x-gzip`"),
    "C13-H": ("flush guard reads `self.decode_content` instead of the call's `decode_content`", "response created with `decode_content=False`, read with `decode_content=True`, incomplete zstd, partial reads"),
    "C18-H": ("`ProxyManager.connection_from_host` drops `pool_kwargs` for http targets", "ProxyManager + http target + settings that differ only via `pool_kwargs`"),
    "C01-A": ("EPIPE branch of `_make_request` drops `response_conn`", "EPIPE while sending + readable early reply + `release_conn=False`"),
    "C01-B": ("`conn.close()` moved from `finally` into the `except` tuple of `urlopen`", "BaseException (or non-retryable error) while `urlopen` owns an open connection"),
    "C02-A": ("`_put_conn`: `if not pool.full(): put()` instead of try/except `queue.Full`", "two threads return connections to a non-blocking full pool, preemption between the check and the put"),
    "C02-B": ("`close()` drains the queue first and sets `self.pool = None` afterwards", "`block=True`, requester enters `_get_conn` between the drain and the store"),
    "C03-A": ("two cooperating edits: `is_connected` skips the poll while a response is pending; `request()` closes a pending body-less response", "body-less response released unread with the response object kept, stray HTTP-shaped bytes pending"),
    "C03-B": ("after resetting a dropped connection `_get_conn` takes the next idle one unchecked", "maxsize >= 2, two responses in flight, both idle connections dirty"),
    "C04-A": ("`is_retry`: allowed_methods no longer gates the Retry-After branch", "non-idempotent method + 413/429/503 with Retry-After outside the forcelist"),
    "C04-B": ("`self.backoff_max = backoff_max or DEFAULT_BACKOFF_MAX`", "`backoff_max=0` with a backoff factor / jitter and two consecutive failures"),
    "C05-A": ("`Retry.increment` classifies redirects by a status set that omits 308", "`Retry(redirect=k)` + a chain of 308s longer than k"),
    "C05-B": ("303 branch and cross-host strip branch of `PoolManager.urlopen` share a stale `headers` local", "303 to a different origin with content headers"),
    "C06-A": ("same-host decision taken before `urljoin`", "Location is a network-path reference `//other/x`"),
    "C06-B": ("`if not kw.get(\"headers\")` instead of `\"headers\" not in kw`", "stripping removes every header of the hop (credentials only) and manager defaults carry credentials"),
    "C07-A": ("own hostname match only when urllib3 built the context", "caller-supplied context with `check_hostname=False`, trusted issuer, wrong name"),
    "C07-B": ("InsecureRequestWarning block indented under `if conn.is_closed`", "CONNECT tunnel + non-validating settings"),
    "C08-A": ("IP SAN values appended to the DNS name list", "IP-looking DNS host against an IP SAN"),
    "C08-B": ("wildcard label pattern `[^.]*`", "wildcard against an empty left-most label"),
    "C09-A": ("forwarding exception tests the destination scheme instead of the proxy scheme", "http proxy + https destination + `use_forwarding_for_https=True`"),
    "C09-B": ("proxy headers merged into the caller's mapping in place", "forwarded request redirected to an https URL: proxy headers travel inside the tunnel"),
    "C10-A": ("header keys lower-cased without `to_str`", "bytes header names: automatic headers duplicated"),
    "C10-B": ("method check uses `.match` instead of `.search`", "control character not at the start of the method"),
    "C11-A": ("`content_length = len(mv)` for buffers", "multi-byte item buffers"),
    "C11-B": ("`body_pos` not passed on the retry recursion", "file body at a non-zero offset + connection-error retry"),
    "C12-A": ("`read(amt)` returns freshly decoded data directly when it is exactly `amt` long, bypassing the buffer", "compressed body, earlier partial read left a remainder, next raw read decodes to exactly n bytes (reorder)"),
    "C12-B": ("`_handle_chunk` collapsed: `amt == chunk_left` falls into the partial branch", "`stream(n)`/`read_chunked(n)` where a non-final chunk ends exactly on a multiple of n"),
    "C01-C": ("`drain_conn()` closes instead of draining when the response has `will_close`", "redirect / status retry whose intermediate response is Connection: close, `block=True`, `preload_content=False`"),
    "C02-C": ("placeholder for a failed attempt inserted at the bottom of the queue without notify", "`block=True`, a thread already waiting, another thread's final attempt fails (retries off)"),
    "C04-C": ("`urlopen` closes the connection before classifying the error", "behind a proxy: read timeout / garbage are reported as ProxyError and charged to `other`"),
    "C05-C": ("retry recursion of `urlopen` no longer forwards `redirect`", "the attempt that receives the 3xx is itself a retry after a connection error"),
    "C06-C": ("default set spelled lower-case + lower-casing skipped for frozensets", "custom `remove_headers_on_redirect` given as a frozenset with mixed-case names"),
    "C07-C": ("pyOpenSSL: CERT_REQUIRED maps to VERIFY_PEER only, inverse table collapses", "pyOpenSSL backend + cert_reqs OPTIONAL: reported verified, no warning"),
    "C09-C": ("`_tunnel_host` derived from the bracket-stripped host", "IPv6 literal destination through a tunnel: `CONNECT ::1:8443`"),
    "C13-C": ("chunk-size line parsed with an unanchored regex", "valid hex digits followed by junk (`5X\\n`) read through urllib3's own chunk parser"),
    "C15-A": ("final `rstrip('.')` of the TLS server name removed", "trailing-dot host through a CONNECT tunnel"),
    "C15-B": ("origin-form test requires `parsed_url.host is None`", "path that starts with `//` after dot-segment removal"),
    "C17-C": ("`clear()` disposes inside the lock", "container with a dispose callback, `clear()` on a non-empty container"),
    "C18-C": ("`_merge_pool_kwargs` returns the manager's own dict when there is no override", "https-only defaults, then an http pool (SSL keywords popped from the defaults)"),
    "C13-A": ("`read1` returns early when the response is closed", "incomplete multi-block zstd stream with satisfied Content-Length, read1-only loop"),
    "C13-B": ("gzip decoder enters OTHER_MEMBERS before the unused-data check", "corrupt gzip body read in more than one piece"),
    "C14-A": ("`normalize_uri = scheme in _NORMALIZABLE_SCHEMES`", "upper-case scheme"),
    "C14-B": ("`_REG_NAME_PAT` with a nested quantifier", "long reg-name followed by a character that fails the match (super-linear time)"),
    "C16-A": ("`if new_vals != vals`", "extend with an equal-valued list"),
    "C16-B": ("`setdefault` stores the lower-cased key", "first-seen casing after setdefault"),
    "C17-A": ("overwrite of a cached key assigns in place (no recency refresh)", "set A; set B; set A; set C with maxsize 2"),
    "C17-B": ("`_new_pool` outside the lock, race loser returns its own pool", "two threads, same uncached key, one preemption between lookup and insert"),
    "C18-A": ("key normaliser pops falsy `assert_hostname` / `server_hostname`", "`assert_hostname=False` vs absent"),
    "C18-B": ("key built from known fields only (unknown keywords silently accepted)", "`proxy` / `proxy_config` / unknown keyword through pool_kwargs"),
    "C19-A": ("`read_timeout` ignores `total` when `read` is given", "total and read both set, connect takes time"),
    "C19-B": ("`read_timeout` read before the connection is validated", "reused vs fresh connection with a total"),
    "C20-A": ("escape only when a special character is found at index > 0", "name starting with a quote / CR / LF"),
    "C20-B": ("part headers written through an f-string encoded as latin-1", "non-latin-1 field names"),
}

print("| seed | change | needs | valid | caught by (quick tier) | first violation |")
print("|---|---|---|---|---|---|")
for d in sorted(glob.glob(os.path.join(HERE, "seeded", "*"))):
    mp = os.path.join(d, "meta.json")
    if not os.path.exists(mp):
        continue
    m = json.load(open(mp))
    sid = m["id"]
    desc, needs = DESC.get(sid, (m.get("change") or "see notes.md", m.get("needs_to_manifest") if m.get("needs_to_manifest") not in (None, "see notes.md") else "see notes.md"))
    if m.get("result_at_first_intake") and m["result_at_first_intake"] != "DETECTED":
        needs += f" (first intake: {m['result_at_first_intake']})"
    res = ", ".join(f"{k}: {v}" for k, v in m.get("our_checks_quick", {}).items())
    first = ""
    for k, v in m.get("first_violation", {}).items():
        for line in v.splitlines():
            if line.strip().startswith("clause="):
                first = line.strip()[:110].replace("|", "/")
                break
    print(f"| {sid} | {desc} | {needs} | {'yes' if m.get('valid_seed') else 'NO'} | {res} | `{first}` |")
