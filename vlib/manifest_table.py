"""Source of truth for MANIFEST.json (run: python -m vlib.mkmanifest)."""

REPO_FIX_COMMITS = ["04f98b2", "9ce180e", "cfc2ed2", "1d8dc7e", "8ef3efb", "a7c5d9c", "2fb9873", "812fbc2", "343713a"]

CHECKS = {
    "C14": {
        "technique": "bounded-exhaustive string enumeration + Hypothesis grammar/unicode generation; oracles: totality, normal-form predicates, idempotence round-trip, differential against an independent RFC 3986 splitter, CPU-time scaling",
        "text": "Every string up to length 5 (quick) / 6 (thorough) over a 13-symbol delimiter alphabet, bare and behind 'http://', plus tens of thousands of grammar-built hostile URLs and unicode strings, are parsed and compared with an independent reading; running time is measured on 26 repetition shapes up to 1e5 characters. Exploration: absence is shown only inside those bounds.",
        "note": "Trusts vlib/refurl.py (independent splitter), the idna package, CPython re; time clause uses CPU time with an absolute-and-relative threshold.",
        "design_ref": "DESIGN.md section 4, C14",
    },
    "C08": {
        "technique": "bounded-exhaustive (SAN name, host) pair enumeration + Hypothesis SAN lists / IP spellings / pin mutations; oracle: independent three-valued RFC 6125 reference (strict subset, liberal superset) and hashlib digest comparison",
        "text": "All pairs of names with <= 2 labels (quick) / <= 3 labels (thorough, 2.1e6 pairs x case variants) over the 11-label alphabet, generated SAN lists with IP and commonName variants, and tens of thousands of pins derived from true digests are decided against a reference that is independent of urllib3's matcher; both directions (must-accept, must-reject) are asserted.",
        "note": "Trusts vlib/refname.py, stdlib ipaddress and hashlib. Partial wildcards and certificates with a malformed multi-wildcard entry ahead of the matching entry are 'either'.",
        "design_ref": "DESIGN.md section 4, C08",
    },
    "C16": {
        "technique": "model-based testing: exhaustive operation sequences (<=3 quick, <=4 thorough over a 41-op alphabet) + Hypothesis-generated sequences (<=30 ops, all source types) against a reference multimap, full observation of every live dict after every step",
        "text": "Every short mutation sequence and many long random ones are run on real HTTPHeaderDict objects and on a small reference multimap; after each step each live dict (including copies/unions taken earlier) is compared through lookup under several casings, iteration orders, getlist, len, membership, equality and repr round trip.",
        "note": "Trusts the reference multimap in props/c16.py; sources with case-colliding keys are only given to add-based entry points (documented undefined otherwise).",
        "design_ref": "DESIGN.md section 4, C16",
    },
    "C19": {
        "technique": "exhaustive enumeration of the (total,connect,read) x placement x connect-duration x history x server-behaviour grid on an in-memory socket with a virtual clock; oracle: independently computed min() arithmetic on what the socket was told; Hypothesis floats for bound/monotonicity relations",
        "text": "The whole valid grid named in the property (125 value triples x 5 placements x 7 connect durations x fresh/reused/second request x answering/silent server) is executed through the real pool/connection/http.client stack; the timeout passed to connect and the one in force when the response wait starts are read off the fake socket and compared with the reference; invalid values are tried at every entry point.",
        "note": "Trusts vlib/fakenet.py (socket shim + virtual clock). Decides the values handed to the socket, not the kernel honouring them.",
        "design_ref": "DESIGN.md section 4, C19",
    },
    "C20": {
        "technique": "exhaustive hostile names/filenames (<=2 / <=3 symbols) in every input form + Hypothesis field lists; oracle: strict independent multipart parser and independently computed WHATWG escaping, byte-exact part headers and data",
        "text": "Encoded bodies are parsed by a strict RFC 7578 parser using the boundary named in the returned content type; part count, order, the exact Content-Disposition/Content-Type/extra header lines and the data bytes are compared with what the field list specifies.",
        "note": "Trusts vlib/wire.py parse_multipart and stdlib mimetypes; names/values are UTF-8 encodable; data never contains the boundary (by construction).",
        "design_ref": "DESIGN.md section 4, C20",
    },
}

_PENDING = "check not built yet in this revision (planned in DESIGN.md section 4); not claimed until it is"
NOT_APPLICABLE = {f"C{i:02d}": _PENDING for i in range(1, 21) if f"C{i:02d}" not in CHECKS}
