#!/venv/bin/python
"""usage: tools/sensitivity_md.py mutants.json > SENSITIVITY.md   (mutants.json written by tools/mutants.py --json)"""
import json, sys

rows = json.load(open(sys.argv[1]))
print("# Sensitivity: kill matrix of the hand-made mutants\n")
print("Produced by `tools/mutants.py --json` (quick tier of each property's check run against a scratch copy of")
print("`src/urllib3` with one textual mutation applied; `/repo` is never touched). KILLED = the check exited 1 with a")
print("VIOLATION line; SURVIVED = it stayed green; STALE = the mutation's anchor text no longer exists in the tree.\n")
k = sum(r["status"] == "KILLED" for r in rows)
print(f"**{k} of {len(rows)} killed.**\n")
print("| mutant | what it breaks | check | status | wall s | first violation |")
print("|---|---|---|---|---|---|")
for r in rows:
    res = r.get("res", {})
    checks = ", ".join(f"{p}: rc={v['rc']}" for p, v in res.items()) or "-"
    first = next((v["first"] for v in res.values() if v.get("first")), "")[:140].replace("|", "/")
    print(f"| {r['id']} | {r.get('desc', r.get('detail', ''))} | {checks} | {r['status']} | {r.get('wall_s', '')} | `{first}` |")
