"""Scripted server endpoints on top of vlib.fakenet (shared by C01, C03, C04, C05, C06, C11, C13...).

ScriptServer consumes one *outcome* per wire attempt, in global order:
  connect phase : refused | ctimeout | gaierror | cbase
  send phase    : epipe | sreset | sother | sbase           (option at: head|body)
  receive phase : rtimeout | rreset | eof | garbage | short_eof | short_timeout | rbase
  responses     : {"o":"resp","status":..,"headers":[[k,v]],"body_len":n,"framing":cl|chunked|close,
                   "keep":bool,"seg":n,"then":None|"eof"|"stray"}
When the script is exhausted the default outcome (200, keep-alive) is used.
Every attempt is logged with the structurally parsed request (vlib.reqwire.Msg).
"""
from __future__ import annotations

import errno
import socket as _socket

from . import fakenet, reqwire

CONNECT_KINDS = {"refused", "ctimeout", "gaierror", "cbase", "tlsfail", "connect_refused"}
SEND_KINDS = {"epipe", "sreset", "sother", "sbase", "epipe_reply"}
RECV_KINDS = {"rtimeout", "rreset", "eof", "garbage", "short_eof", "short_timeout", "rbase", "rssl"}


class Interrupt(KeyboardInterrupt):
    """The injected BaseException (identity is checked by the oracles)."""


def ok(status=200, body_len=24, framing="cl", keep=True, **kw):
    d = {"o": "resp", "status": status, "body_len": body_len, "framing": framing, "keep": keep}
    d.update(kw)
    return d


DEFAULT = ok()


class ScriptServer(fakenet.Endpoint):
    def __init__(self, script=(), default=None, clock=None):
        super().__init__()
        self.script = [dict(x) if isinstance(x, dict) else {"o": x} for x in script]
        self.pos = 0
        self.default = default or DEFAULT
        self.attempts: list = []  # {"sid","outcome","msg","phase","host","port"}
        self.consumed: list = []
        self.injected: list = []  # BaseException instances raised by the harness
        self.clock = clock
        self.serial = 0
        self.parse_errors = []
        self.connects_seen: list = []

    # ---- script
    def _peek(self):
        return self.script[self.pos] if self.pos < len(self.script) else None

    def _take(self):
        if self.pos < len(self.script):
            o = self.script[self.pos]
            self.pos += 1
        else:
            o = dict(self.default)
        self.consumed.append(o)
        return o

    # ---- connect
    def on_resolve(self, host, port):
        o = self._peek()
        if o is not None and o["o"] == "gaierror":
            self._take()
            self.attempts.append({"sid": None, "outcome": o, "msg": None, "phase": "connect", "host": host, "port": port})
            raise _socket.gaierror(_socket.EAI_NONAME, "Name or service not known")

    def on_connect(self, sock, sa):
        o = self._peek()
        if o is not None and o["o"] in ("refused", "ctimeout", "cbase"):
            self._take()
            self.attempts.append({"sid": sock.sid, "outcome": o, "msg": None, "phase": "connect", "host": sa[0], "port": sa[1]})
            if o["o"] == "refused":
                raise ConnectionRefusedError(errno.ECONNREFUSED, "Connection refused")
            if o["o"] == "ctimeout":
                raise _socket.timeout("timed out")
            exc = Interrupt("injected at connect")
            self.injected.append(exc)
            raise exc
        super().on_connect(sock, sa)
        sock.state["cur"] = None
        sock.state["done"] = 0

    # ---- send / request arrival
    def _transport(self, sock, data):
        """Null-TLS hello records and CONNECT requests are answered here (transport setup, not attempts).
        Returns True when `data` was consumed by the transport layer."""
        from . import nulltls

        st = sock.state
        if data.startswith(nulltls.HELLO):
            o = self._peek()
            trusted = True
            if o is not None and o["o"] == "tlsfail":
                self._take()
                self.attempts.append({"sid": sock.sid, "outcome": o, "msg": None, "phase": "tls", "host": sock.addr[0], "port": sock.addr[1]})
                trusted = False
            host = st.get("tunnel_host") or str(sock.addr[0])
            ident = nulltls.Identity([("DNS", host.strip("[]").lower())], trusted=trusted, label="script")
            st.setdefault("layers", []).append(data)
            sock.tx += data
            st["consumed"] = st.get("consumed", 0) + len(data)
            st["skip"] = st.get("skip", 0) + len(data)
            sock.rx.append(nulltls.CERT + b"%d\n" % ident.id)
            return True
        if data.startswith(b"CONNECT ") and st.get("cur") is None and not st.get("tunnel_host"):
            sock.tx += data
            st["consumed"] = st.get("consumed", 0) + len(data)
            st["skip"] = st.get("skip", 0) + len(data)
            self.connects_seen.append((sock.sid, data.split(b"\r\n")[0]))
            o = self._peek()
            if o is not None and o["o"] == "connect_refused":
                self._take()
                self.attempts.append({"sid": sock.sid, "outcome": o, "msg": None, "phase": "tunnel", "host": sock.addr[0], "port": sock.addr[1]})
                sock.rx.append(b"HTTP/1.1 403 Forbidden\r\nContent-Length: 0\r\nConnection: close\r\n\r\n")
                sock.rx.append(fakenet.EOF)
                return True
            st["tunnel_host"] = data.split(b" ")[1].rsplit(b":", 1)[0].decode("latin-1")
            sock.rx.append(b"HTTP/1.1 200 Connection established\r\n\r\n")
            return True
        return False

    def _flush_late(self, sock):
        late = sock.state.pop("late", None)
        if late:
            for item in late:
                sock.rx.append(item)

    def on_idle_recv(self, sock):
        # the client waits for more of the current response: the part the server sends "late" arrives now
        self._flush_late(sock)

    def on_send(self, sock, data):
        st = sock.state
        self._flush_late(sock)  # whatever the server was still sending arrives no later than the next request
        if st.get("cur") is None and self._transport(sock, data):
            return
        if st.get("cur") is None:
            o = self._take()
            if o["o"] in CONNECT_KINDS:  # script wanted a connect fault but the connection was reused
                o = {"o": "rreset", "converted_from": o["o"]}
                self.consumed[-1] = o
            st["cur"] = o
            st["fault_fired"] = False
            self.attempts.append({"sid": sock.sid, "outcome": o, "msg": None, "phase": "request", "host": sock.addr[0], "port": sock.addr[1],
                                  "dirty": sock.readable_now(), "nth_on_socket": st.get("done", 0)})
            st["att"] = self.attempts[-1]
        o = st["cur"]
        consumed = st.get("consumed", 0)
        head_before = b"\r\n\r\n" in bytes(sock.tx[consumed:])
        if o["o"] in SEND_KINDS and not st["fault_fired"]:
            at = o.get("at", "head")
            if at == "head" or (at == "body" and head_before):
                st["fault_fired"] = True
                st["att"]["phase"] = "send-fault"
                if o["o"] == "epipe_reply":
                    # the server answered early (e.g. 413) and hung up: the reply is readable although sending fails
                    sock.rx.append(fakenet.response_bytes(o.get("status", 413), [], b"too large", "cl", False))
                    sock.rx.append(fakenet.EOF)
                if o["o"] in ("epipe", "sreset"):
                    # the peer has reset the connection: a later recv on this socket fails the same way
                    sock.rx.append(("exc", ConnectionResetError(errno.ECONNRESET, "Connection reset by peer")))
                self._raise_send(o)
        sock.tx += data
        msgs, left, err = reqwire.parse_stream(bytes(sock.tx[st.get("skip", 0) :]))
        while len(msgs) > st["done"]:
            msg = msgs[st["done"]]
            st["done"] += 1
            st["consumed"] = st.get("consumed", 0) + len(msg.raw)
            att = st.get("att")
            if att is None or att["msg"] is not None:
                # a further complete request without its own arrival event (pipelined / smuggled)
                o = self._take()
                att = {"sid": sock.sid, "outcome": o, "msg": None, "phase": "request", "host": sock.addr[0], "port": sock.addr[1]}
                self.attempts.append(att)
            att["msg"] = msg
            self.serial += 1
            att["serial"] = self.serial
            self.requests.append((sock.sid, msg))
            self.respond(sock, msg, o, att)
            st["cur"] = None
            st["att"] = None
        if err is not None and not err.startswith(("head not", "chunk", "body shorter", "last chunk")):
            self.parse_errors.append((sock.sid, err))

    def _raise_send(self, o):
        k = o["o"]
        if k in ("epipe", "epipe_reply"):
            raise BrokenPipeError(errno.EPIPE, "Broken pipe")
        if k == "sreset":
            raise ConnectionResetError(errno.ECONNRESET, "Connection reset by peer")
        if k == "sother":
            raise OSError(errno.EHOSTUNREACH, "No route to host")
        exc = Interrupt("injected at send")
        self.injected.append(exc)
        raise exc

    # ---- response
    def _header_value(self, v: str) -> str:
        """'@date+N' / '@date-N' -> the HTTP-date N seconds after / before the (virtual) moment of the reply."""
        if v.startswith("@date") and self.clock is not None:
            import email.utils

            return email.utils.formatdate(self.clock.time() + int(v[5:]), usegmt=True)
        return v

    def body_for(self, msg, o, serial):
        target = msg.request_line.split(b" ")[1] if msg.request_line.count(b" ") >= 2 else b"?"
        return fakenet.tag_body(target, o.get("body_len", 24), serial)

    def respond(self, sock, msg, o, att):
        k = o["o"]
        rx = sock.rx
        if k == "resp":
            method = msg.request_line.split(b" ")[0]
            status = o.get("status", 200)
            body = self.body_for(msg, o, att["serial"]) if "body" not in o else o["body"].encode("latin-1")
            att["body"] = body
            hdrs = [(a.encode("latin-1"), self._header_value(b).encode("latin-1")) for a, b in o.get("headers", [])]
            framing = o.get("framing", "cl")
            bodyless = method == b"HEAD" or status in (204, 304) or 100 <= status < 200
            if bodyless:
                o = dict(o, late=None)
            if bodyless and not o.get("force_body"):
                data = fakenet.response_bytes(status, hdrs, body, framing if framing != "close" else "cl", o.get("keep", True))
                head_end = data.index(b"\r\n\r\n") + 4
                data = data[:head_end]
                att["body"] = b""
            else:
                data = fakenet.response_bytes(status, hdrs, body, framing, o.get("keep", True), o.get("chunk_sizes", ()))
            then = o.get("then")
            stray = None
            if then == "stray":
                stray = o.get("stray", "HTTP/1.1 200 OK\r\nContent-Length: 6\r\n\r\nPOISON").encode("latin-1")
            if o.get("pre100"):
                data = b"HTTP/1.1 100 Continue\r\n\r\n" + data
            late_at = o.get("late")
            tail_items = []
            if late_at is not None:
                # only the head and the first `late_at` body bytes are sent at once; the rest follows later
                cut = min(len(data), data.index(b"\r\n\r\n") + 4 + late_at)
                if o.get("late_marker"):
                    # cut exactly where the marker starts inside the framed body (whatever the framing bytes before it)
                    m = data.find(o["late_marker"].encode("latin-1"), data.index(b"\r\n\r\n") + 4)
                    if m >= 0:
                        cut = m
                data, rest = data[:cut], data[cut:]
                tail_items += fakenet.segment(rest, o.get("seg"))
            if o.get("sleep_interrupt"):
                # the pause urllib3 makes after this response (Retry-After / backoff) is interrupted: a BaseException
                # arrives while no I/O is in progress and urllib3 alone holds the response
                exc = Interrupt("injected at sleep")
                self.injected.append(exc)
                sock.net.clock.interrupt = exc
            self.reply(sock, data, o.get("seg"))
            sink = tail_items if late_at is not None else rx
            if stray:
                sink.append(stray)
            if framing == "close" or not o.get("keep", True) or then == "eof":
                sink.append(fakenet.EOF)
            if late_at is not None:
                sock.state["late"] = tail_items
        elif k == "rtimeout":
            rx.append(fakenet.NEVER)
        elif k == "rreset":
            rx.append(("exc", ConnectionResetError(errno.ECONNRESET, "Connection reset by peer")))
        elif k == "rother":
            # an OSError that is not a ConnectionError while the reply is awaited (the request has been sent)
            rx.append(("exc", OSError(errno.EHOSTUNREACH, "No route to host")))
        elif k == "eof":
            rx.append(fakenet.EOF)
        elif k == "garbage":
            rx.append(b"\x16\x03\x01 this is not http\r\n\r\n")
            rx.append(fakenet.EOF)
        elif k in ("short_eof", "short_timeout"):
            body = self.body_for(msg, {"body_len": 40}, att["serial"])
            att["body"] = body
            data = fakenet.response_bytes(200, [], body[:10], "cl", True, declared_length=40)
            self.reply(sock, data, o.get("seg"))
            rx.append(fakenet.EOF if k == "short_eof" else fakenet.NEVER)
        elif k == "rssl":
            import ssl

            rx.append(("exc", ssl.SSLError(1, "[SSL: DECRYPTION_FAILED_OR_BAD_RECORD_MAC] decryption failed or bad record mac (_ssl.c:2580)")))
        elif k == "rbase":
            exc = Interrupt("injected at receive")
            self.injected.append(exc)
            rx.append(("exc", exc))
        elif k in SEND_KINDS:
            # the fault position was never reached (e.g. at=body for a body-less request): answer normally
            self.respond(sock, msg, dict(self.default), att)
        else:
            raise fakenet.HarnessBug(f"unknown outcome {o!r}")
