"""C20 - multipart form encoding is structurally sound for any field content."""
from __future__ import annotations

import itertools
import mimetypes
import os

from vlib import core, wire
from vlib.core import Failure

PROP = "C20"
RULE = (
    "a case is (field list <= 4, container list|dict, boundary explicit|random, entry point encode_multipart_formdata | RequestMethods.request_encode_body(fields=...) with the caller's headers absent / pool-level / dict / HTTPHeaderDict (without a Content-Type of their own), fresh or already used for an earlier multipart request). Names/filenames: (a) every string of "
    "<= L symbols (L=2 quick, 3 thorough) over the hostile alphabet {\" CR LF ; \\ % e-acute -- = SP} used as name and "
    "as filename in each input form (distinct by construction); (b) Hypothesis-generated lists with names/filenames "
    "from that alphabet plus ordinary text, values str or bytes incl. CRLF, dash runs and boundary-like prefixes, input "
    "forms 2-tuple / (filename,data) / (filename,data,mime) / RequestField (make_multipart with custom disposition, "
    "location, extra headers; several RequestFields may have been given one and the same headers dict). Data never contains the boundary (explicit boundaries are drawn first and cut out of the "
    "data by construction). Non-trivial = some name/filename contains one of \" CR LF ; \\ or some data contains CRLF "
    "or '--'. Distinct by hash of the case."
)
ASSUMPTIONS = [
    "vlib/wire.py parse_multipart is a strict RFC 7578 parser; the WHATWG escape (only \" CR LF percent-encoded) is re-implemented in the oracle",
    "mimetypes.guess_type (stdlib) is the reference for guessed part content types",
    "names, filenames and str values are UTF-8 encodable (no lone surrogates), as the field API documents",
]
EXHAUSTIVE = {"quick": False, "thorough": False}

HOSTILE = ['"', "\r", "\n", ";", "\\", "%", "é", "--", "=", " "]


def _scale(n):
    return max(1, int(n * float(os.environ.get("VERIF_SCALE", "1"))))


def E(s: str) -> str:
    return s.replace('"', "%22").replace("\r", "%0D").replace("\n", "%0A")


def _data_bytes(d) -> bytes:
    if "s" in d:
        return d["s"].encode("utf-8")
    return core.j2b(d["b"])


def _data_obj(d):
    return d["s"] if "s" in d else core.j2b(d["b"])


def build_fields(case):
    from urllib3.fields import RequestField

    items = []
    shared: dict = {}  # shared_headers: RequestFields whose extra headers are equal are given the SAME dict object
    for f in case["fields"]:
        form = f["form"]
        data = _data_obj(f["data"])
        if form == "plain":
            items.append((f["name"], data))
        elif form == "file2":
            items.append((f["name"], (f["filename"], data)))
        elif form == "file3":
            items.append((f["name"], (f["filename"], data, f["mime"])))
        elif form == "rf":
            hd = dict(f.get("headers") or {})
            if case.get("shared_headers"):
                hd = shared.setdefault(core.canon(hd), hd)
            rf = RequestField(f["name"], data, filename=f.get("filename"), headers=hd)
            if f.get("multipart", True):
                rf.make_multipart(content_disposition=f.get("disposition"), content_type=f.get("mime"), content_location=f.get("location"))
            items.append(rf)
        else:
            raise core.InvalidCase
    if case.get("container") == "dict":
        if any(f["form"] == "rf" for f in case["fields"]):
            raise core.InvalidCase
        names = [f["name"] for f in case["fields"]]
        if len(set(names)) != len(names):
            raise core.InvalidCase
        return dict(items)
    return items


def expected_parts(case):
    out = []
    for f in case["fields"]:
        form = f["form"]
        hdrs = []
        fn = f.get("filename") if form != "plain" else None
        disp = "form-data"
        mime = None
        loc = None
        extra = []
        if form == "file2":
            mime = (mimetypes.guess_type(fn)[0] if fn else None) or "application/octet-stream"
        elif form == "file3":
            mime = f["mime"]
        elif form == "rf":
            disp = f.get("disposition") or "form-data"
            mime = f.get("mime")
            loc = f.get("location")
            extra = [(k, v) for k, v in (f.get("headers") or {}).items() if k not in ("Content-Disposition", "Content-Type", "Content-Location") and v]
            if not f.get("multipart", True):
                raise core.InvalidCase
        cd = f'{disp}; name="{E(f["name"])}"'
        if fn is not None:
            cd += f'; filename="{E(fn)}"'
        hdrs.append(("Content-Disposition", cd))
        if mime:
            hdrs.append(("Content-Type", mime))
        if loc:
            hdrs.append(("Content-Location", loc))
        hdrs.extend(extra)
        out.append(([(k.encode("utf-8"), v.encode("utf-8")) for k, v in hdrs], _data_bytes(f["data"])))
    return out


def check_case(case) -> list[Failure]:
    from urllib3 import encode_multipart_formdata

    if case.get("kind") != "mp":
        raise core.InvalidCase
    boundary = case.get("boundary")
    for f in case["fields"]:
        if boundary is not None and boundary.encode() in _data_bytes(f["data"]):
            raise core.InvalidCase
    fields = build_fields(case)
    exp = expected_parts(case)
    via = case.get("via", "encoder")
    if via == "request":
        return _via_request(case, fields, exp, boundary)
    if via != "encoder":
        raise core.InvalidCase
    try:
        body, ctype = encode_multipart_formdata(fields, boundary=boundary)
    except Exception as e:  # noqa: BLE001
        return [Failure("encodes", {"exc": type(e).__name__}, f"encode_multipart_formdata raised {type(e).__name__}: {e}")]
    return _verify(case, body, ctype, boundary, exp, {})


HSTYLES = ["none", "pool", "dict", "hd"]


def _via_request(case, fields, exp, boundary):
    """The same encoder reached through RequestMethods.request_encode_body(fields=...): the body and the Content-Type
    header handed to urlopen() are judged like the encoder's return value.  `reuse`: the caller's header object has
    already been used for an earlier multipart request with another boundary."""
    from urllib3._collections import HTTPHeaderDict
    from urllib3._request_methods import RequestMethods

    hstyle, reuse = case.get("hstyle", "none"), bool(case.get("reuse"))
    if hstyle not in HSTYLES:
        raise core.InvalidCase

    class Rec(RequestMethods):
        def __init__(self, headers=None):
            super().__init__(headers)
            self.calls = []

        def urlopen(self, method, url, body=None, headers=None, **kw):
            self.calls.append((body, headers))

    # (a Content-Type the caller supplies itself is kept by request_encode_body - setdefault - and is the caller's
    #  business; the header sets used here carry none)
    base = {"X-App": "1"}
    rm = Rec(headers=dict(base) if hstyle == "pool" else None)
    hdrs = None if hstyle in ("none", "pool") else (dict(base) if hstyle.startswith("dict") else HTTPHeaderDict(base))
    sig = {"via": "request", "hstyle": hstyle, "reuse": reuse}
    try:
        if reuse:
            rm.request_encode_body("POST", "/first", fields=[("k", "v")], headers=hdrs, multipart_boundary="earlier-boundary-0001")
        rm.request_encode_body("POST", "/x", fields=fields, headers=hdrs, multipart_boundary=boundary)
    except Exception as e:  # noqa: BLE001
        return [Failure("encodes", {**sig, "exc": type(e).__name__}, f"request_encode_body raised {type(e).__name__}: {e}")]
    body, sent = rm.calls[-1]
    cts = [v for k, v in (sent.items() if sent is not None else []) if k.lower() == "content-type"]
    if len(cts) != 1:
        return [Failure("content-type", {**sig, "kind": "header-count"}, f"the request carries {len(cts)} Content-Type headers: {cts!r}")]
    if not isinstance(body, bytes):
        return [Failure("encodes", {**sig, "exc": "body-type"}, f"body handed to urlopen is {type(body).__name__}")]
    if hstyle != "none" and "x-app" not in {k.lower() for k in sent}:
        return [Failure("content-type", {**sig, "kind": "other-header-lost"}, f"the caller's other header is gone: {dict(sent)!r}")]
    return _verify(case, body, cts[0], boundary, exp, sig)


def _verify(case, body, ctype, boundary, exp, sig):
    fails = []
    prefix = "multipart/form-data; boundary="
    if not isinstance(ctype, str) or not ctype.startswith(prefix):
        return [Failure("content-type", {**sig}, f"content type {ctype!r}")]
    b = ctype[len(prefix) :]
    if boundary is not None and b != boundary:
        fails.append(Failure("content-type", {**sig, "kind": "boundary-differs"}, f"content type names boundary {b!r}, requested {boundary!r}"))
    if not b or any(ch in b for ch in ' \r\n";'):
        fails.append(Failure("content-type", {**sig, "kind": "boundary-shape"}, f"boundary {b!r}"))
    try:
        parts = wire.parse_multipart(body, b.encode("latin-1"))
    except wire.WireError as e:
        fails.append(Failure("strict-parse", {**sig}, f"body does not parse: {e}; body={body[:300]!r}"))
        return fails
    if len(parts) != len(exp):
        fails.append(Failure("part-count", {**sig}, f"{len(parts)} parts parsed, {len(exp)} fields given; body={body[:300]!r}"))
        return fails
    for i, (p, (eh, ed)) in enumerate(zip(parts, exp)):
        if p.headers != eh:
            which = "disposition" if (p.headers[:1] != eh[:1]) else "other-headers"
            fails.append(Failure("part-headers", {"which": which}, f"part {i}: headers {p.headers!r}, expected {eh!r}"))
        else:
            try:
                dtype, params = wire.parse_disposition(p.headers[0][1])
                want_n = 1 + (1 if b"filename=" in eh[0][1] and case["fields"][i]["form"] != "plain" and case["fields"][i].get("filename") is not None else 0)
                if len(params) != want_n or params[0][0] != b"name":
                    fails.append(Failure("part-headers", {"which": "param-structure"}, f"part {i}: parameters {params!r}"))
            except wire.WireError as e:
                fails.append(Failure("part-headers", {"which": "param-structure"}, f"part {i}: {e}"))
        if p.data != ed:
            fails.append(Failure("part-data", {}, f"part {i}: data {p.data[:80]!r}, expected {ed[:80]!r}"))
    return fails


def nontrivial(case):
    for f in case["fields"]:
        for s in (f["name"], f.get("filename") or ""):
            if any(ch in s for ch in '"\r\n;\\'):
                return True
        d = _data_bytes(f["data"])
        if b"\r\n" in d or b"--" in d:
            return True
    return False


def classes(case):
    out = {"form:" + f["form"] for f in case["fields"]}
    out.add("container:" + case.get("container", "list"))
    out.add("boundary:" + ("explicit" if case.get("boundary") is not None else "random"))
    for f in case["fields"]:
        for s in (f["name"], f.get("filename") or ""):
            for ch, nm in (('"', "quote"), ("\r", "CR"), ("\n", "LF"), (";", "semicolon"), ("\\", "backslash")):
                if ch in s:
                    out.add("hostile:" + nm)
        if "b" in f["data"]:
            out.add("data:bytes")
    return sorted(out)


# ---------------------------------------------------------------- generators


def _hyp_cases():
    from hypothesis import strategies as st

    hostile_name = st.lists(st.sampled_from(HOSTILE + ["a", "b", "file", ".txt", ".png", "€", "name", '"; x="', "\r\nX-Inj: 1", "\r\n\r\n"]), min_size=0, max_size=5).map("".join)
    name = st.one_of(hostile_name, st.text(alphabet=st.characters(blacklist_categories=["Cs"]), max_size=6))
    boundary = st.one_of(st.none(), st.text(alphabet="abcXYZ019-_.", min_size=1, max_size=12), st.sampled_from(["b", "-", "--", "xyz", "----WebKitFormBoundary7MA4"]))
    frag = st.sampled_from(["\r\n", "--", "-", "\r", "\n", "a", "\x00", "\xff", "Content-Disposition: form-data", "=", ";", '"', "%0D%0A"])

    def mk_data(parts, is_bytes, bnd):
        if is_bytes:
            raw = "".join(parts).encode("latin-1")
            if bnd:
                raw = raw.replace(bnd.encode("latin-1"), b"x")
                # also cut prefixes produced by the replacement
                while bnd.encode("latin-1") in raw:
                    raw = raw.replace(bnd.encode("latin-1"), b"x")
            return {"b": core.b2j(raw)}
        s = "".join(parts)
        if bnd:
            while bnd in s:
                s = s.replace(bnd, "x")
        return {"s": s}

    @st.composite
    def case(draw):
        bnd = draw(boundary)
        n = draw(st.integers(1, 4))
        container = draw(st.sampled_from(["list", "list", "dict"]))
        fields = []
        for _ in range(n):
            form = draw(st.sampled_from(["plain", "file2", "file3", "rf"] if container == "list" else ["plain", "file2", "file3"]))
            parts = draw(st.lists(st.one_of(frag, st.just("--" + (bnd or "q")[:-1]), st.just((bnd or "q")[:-1])), max_size=6))
            d = mk_data(parts, draw(st.booleans()), bnd)
            f = {"name": draw(name), "form": form, "data": d}
            if form in ("file2", "file3"):
                f["filename"] = draw(name)
            if form == "file3":
                f["mime"] = draw(st.sampled_from(["image/jpeg", "text/plain; charset=utf-8", "application/x-custom"]))
            if form == "rf":
                f["filename"] = draw(st.one_of(st.none(), name))
                f["disposition"] = draw(st.sampled_from([None, "form-data", "attachment"]))
                f["mime"] = draw(st.sampled_from([None, "text/plain"]))
                f["location"] = draw(st.sampled_from([None, "/up/1"]))
                f["headers"] = draw(st.sampled_from([{}, {"X-Extra": "1"}, {"X-Empty": "", "X-A": "b"}]))
            fields.append(f)
        if container == "dict":
            seen = set()
            uniq = []
            for f in fields:
                if f["name"] not in seen:
                    seen.add(f["name"])
                    uniq.append(f)
            fields = uniq
        c = {"kind": "mp", "fields": fields, "container": container, "boundary": bnd}
        if sum(1 for f in fields if f["form"] == "rf") >= 2 and draw(st.booleans()):
            c["shared_headers"] = True
        if draw(st.integers(0, 3)) == 0:
            c.update(via="request", hstyle=draw(st.sampled_from(HSTYLES)), reuse=draw(st.booleans()))
        return c

    return case()


def _exh_names(L):
    for n in range(0, L + 1):
        for t in itertools.product(HOSTILE, repeat=n):
            yield "".join(t)


def shards(tier, seed):
    L = 2 if tier == "quick" else 3
    out = [{"part": "exhaustive", "L": L, "slot": s} for s in ("name", "filename2", "filename3", "rfname", "rffilename")]
    n = _scale(20000 if tier == "quick" else 600000)
    nsh = 16 if tier == "quick" else 64
    for i in range(nsh):
        out.append({"part": "random", "n": n // nsh, "seed": core.derive_seed(seed, "r", i)})
    from vlib import fuzz

    out += fuzz.shards("C20", tier, seed, quick=(2, 3000), thorough=(16, 100000))
    return out


def fuzz_strategy(which):
    return _hyp_cases(), (lambda c: c)


def run_shard(spec):
    col = core.Collector()
    if spec["part"] == "atheris":
        import sys

        from vlib import fuzz

        fuzz.run_shard(col, sys.modules[__name__], spec)
        return col
    if spec["part"] == "exhaustive":
        slot = spec["slot"]
        for s in _exh_names(spec["L"]):
            if slot == "name":
                f = {"name": s, "form": "plain", "data": {"s": "v"}}
            elif slot == "filename2":
                f = {"name": "f", "form": "file2", "filename": s, "data": {"b": "v\r\n--"}}
            elif slot == "filename3":
                f = {"name": s, "form": "file3", "filename": s, "mime": "text/plain", "data": {"s": "v"}}
            elif slot == "rfname":
                f = {"name": s, "form": "rf", "filename": None, "data": {"s": "v"}, "disposition": "attachment"}
            else:
                f = {"name": "n", "form": "rf", "filename": s, "data": {"b": "v"}, "mime": "a/b", "location": "/l"}
            case = {"kind": "mp", "fields": [f, {"name": "tail", "form": "plain", "data": {"s": "t"}}], "container": "list", "boundary": "BOUND"}
            kx = len(s) * 7 + sum(map(ord, s))
            if slot in ("rfname", "rffilename") and kx % 2:
                # a second RequestField that was given the very same (empty) headers dict object
                case["fields"] = [f, {"name": "second", "form": "rf", "filename": "b.txt", "data": {"s": "t"}, "disposition": f.get("disposition")}]
                case["shared_headers"] = True
            if kx % 3 == 0:
                case.update(via="request", hstyle=HSTYLES[kx % len(HSTYLES)], reuse=bool(kx % 2))
            fails = check_case(case)
            col.case(case, nontrivial(case), ["exh:" + slot], fails, distinct_by_construction=True)
    else:

        def body(case):
            try:
                fails = check_case(case)
            except core.InvalidCase:
                col.note("invalid_generated")
                return
            col.case(case, nontrivial(case), classes(case), fails)

        core.hyp_run(_hyp_cases(), spec["n"], spec["seed"], body)
    return col


def presets():
    return [
        {"kind": "mp", "fields": [{"name": 'a"; filename="x', "form": "plain", "data": {"s": "v"}}], "container": "list", "boundary": "B"},
        {"kind": "mp", "fields": [{"name": "n\r\nX-Inj: 1", "form": "file2", "filename": "f\r\n\r\nboo", "data": {"b": "\r\n--"}}], "container": "list", "boundary": None},
        {"kind": "mp", "fields": [{"name": "k", "form": "plain", "data": {"s": "é"}}, {"name": "k2", "form": "file3", "filename": "é.png", "mime": "image/png", "data": {"b": "\xff\x00"}}], "container": "dict", "boundary": "xx"},
    ]


def min_nontrivial(tier):
    return 5000
