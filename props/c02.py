"""C02 - concurrent requests never share a connection, exceed maxsize, or deadlock."""
from __future__ import annotations

import gc
import itertools
import os
import weakref

from vlib import core, fakenet, sched, servers
from vlib.core import Failure

PROP = "C02"
RULE = (
    "a case is a CONFIG (maxsize 1|2, block, 2-3 request threads with 1-2 requests each, optionally one thread calling "
    "close(), an outcome script with at most one failing attempt: reset | 503 | connect refused | a reply that is not HTTP (the socket stays open until the pool closes it), retries on | off, pool_timeout none | set; or responses with chunked bodies whose second part arrives late, released after 5 bytes; or HEAD requests consumed with stream(); or streamed requests of which the first is redirected by a 302 without a body) plus "
    "a SCHEDULE. Real threads run the real pool code on the in-memory network under vlib/sched.py, which owns every context "
    "switch: yield points are every line of _get_conn/_put_conn/_new_conn/close/_close_pool_connections/release_conn/"
    "HTTPResponse.close (thorough: also urlopen and _error_catcher, opcode granularity in _get_conn/_put_conn) and every "
    "operation of the pool's queue (installed through the QueueCls hook). Explored: the default schedule, every schedule "
    "with 1 preemption (2 on the small configs; thorough 2 / 3) and Hypothesis-drawn random schedules. Monitors: a socket "
    "is never touched by two requests at once, never more than maxsize connections when blocking, no deadlock, every "
    "request gets the body tagged with its own target or a documented error, with close() only normal completion or "
    "ClosedPoolError, and after the pool object is dropped every socket is closed. Non-trivial = the schedule has a "
    "preemption inside a traced function while another thread is between checkout and return."
)
ASSUMPTIONS = [
    "vlib/sched.py: one logical thread runs at a time; preemption happens only at the listed yield points (not inside a bytecode or C code); blocking is virtual and a timeout fires only when no thread is runnable",
    "queue semantics are the real queue.LifoQueue's non-blocking paths; only the wait is cooperative",
    "vlib/servers.py ScriptServer tags every body with the request target",
]
EXHAUSTIVE = {"quick": False, "thorough": False}

POOL_FUNCS = [("connectionpool.py", n) for n in ("_get_conn", "_put_conn", "_new_conn", "close", "_close_pool_connections")] + [("response.py", n) for n in ("release_conn", "close")]
POOL_FUNCS_DEEP = POOL_FUNCS + [("connectionpool.py", "urlopen"), ("response.py", "_error_catcher"), ("connectionpool.py", "_make_request")]
OPCODE_FUNCS = [("connectionpool.py", "_get_conn"), ("connectionpool.py", "_put_conn")]


def _scale(n):
    return max(1, int(n * float(os.environ.get("VERIF_SCALE", "1"))))


TRAP_BODY = "T" * 9 + "HTTP/1.1 200 OK\r\nContent-Length: 6\r\n\r\nPOISON"


class _Queue(sched.CoopLifoQueue):
    """The pool's queue: additionally remembers, each time a thread parks in get(), whether this queue was still the
    pool's current queue and how many entries the REQUEST threads had checked out (for the known-finding signature)."""

    pool_ref = None
    on_return = None
    out_by_requesters = 0
    parks: list = []

    def get(self, block=True, timeout=None):
        s = sched.current()
        me = s.me() if s is not None else None
        if me is None:
            return super().get(block, timeout)
        s.yield_point(("queue.get", 0))
        while True:
            try:
                item = sched.queue.LifoQueue.get(self, block=False)
                if not me.name.startswith("closer"):
                    self.out_by_requesters += 1
                return item
            except sched.queue.Empty:
                if not block:
                    raise
                pool = self.pool_ref() if self.pool_ref is not None else None
                current = pool is not None and pool.pool is self
                self.parks.append({"thread": me.name, "queue_is_current": current, "out_by_requesters": self.out_by_requesters, "maxsize": self.maxsize, "point": s.points})
                if s.block(me, ("queue", id(self)), timeout) == "timeout":
                    raise sched.queue.Empty from None

    def put(self, item, block=True, timeout=None):
        s = sched.current()
        me = s.me() if s is not None else None
        if me is not None:
            s.yield_point(("queue.put", 0))
        sched.queue.LifoQueue.put(self, item, block=False)
        if me is not None:
            if not me.name.startswith("closer"):
                self.out_by_requesters -= 1
            if self.on_return is not None:
                self.on_return(item)  # the connection is back in the pool: its exclusive use has ended
            s.wake_all(("queue", id(self)))


def _validate(cfg):
    if cfg.get("maxsize") not in (1, 2) or not isinstance(cfg.get("block"), bool) or cfg.get("pool_timeout") not in (None, 0.05):
        raise core.InvalidCase
    th = cfg.get("threads")
    if not isinstance(th, list) or not (2 <= len(th) <= 3) or any(n not in (1, 2) for n in th) or not isinstance(cfg.get("closer"), bool):
        raise core.InvalidCase
    if not isinstance(cfg.get("partial", False), bool) or (cfg.get("partial") and cfg.get("fault") is not None):
        raise core.InvalidCase
    if not isinstance(cfg.get("redirect_empty", False), bool) or (cfg.get("redirect_empty") and (cfg.get("fault") is not None or cfg.get("partial") or cfg.get("head_stream"))):
        raise core.InvalidCase
    if not isinstance(cfg.get("head_stream", False), bool) or (cfg.get("head_stream") and (cfg.get("fault") is not None or cfg.get("partial"))):
        raise core.InvalidCase
    if cfg.get("fault") not in (None, "rreset", "503", "refused", "garbage") or cfg.get("fault_at", 0) not in (0, 1, 2) or cfg.get("retries", "retry") not in ("retry", "none"):
        raise core.InvalidCase


def run_once(cfg, decisions=None, random_seq=None, deep=False, opcode=False):
    import urllib3
    from urllib3.util.retry import Retry

    _validate(cfg)
    script = [servers.ok(body_len=30) for _ in range(cfg.get("fault_at", 0))]
    if cfg["fault"] == "rreset":
        script.append({"o": "rreset"})
    elif cfg["fault"] == "503":
        script.append(servers.ok(503, body_len=3))
    elif cfg["fault"] == "refused":
        script.append({"o": "refused"})
    elif cfg["fault"] == "garbage":
        # not an HTTP reply: unlike after a reset, http.client leaves the socket open and the pool has to close it
        script.append({"o": "garbage"})
    redirect_empty = bool(cfg.get("redirect_empty"))  # every thread's first request is answered 302 with an empty body; responses are streamed
    head_stream = bool(cfg.get("head_stream"))  # every request but a thread's last one is a HEAD whose (chunked-announced) response is consumed with stream()
    partial = bool(cfg.get("partial"))
    # partial: chunked bodies whose second part is sent late; every request but a thread's last one reads 5 bytes and releases
    # (the late part looks like an HTTP response: a connection that is wrongly reused serves it to the next request)
    if redirect_empty:
        script = [servers.ok(302, body_len=0, headers=[["Location", "/landing"]])]
    srv = servers.ScriptServer(script, default=servers.ok(framing="chunked", late=9, body=TRAP_BODY, late_marker="HTTP/1.1 200 OK") if partial else (servers.ok(body_len=30, framing="chunked") if head_stream else servers.ok(body_len=30)))

    class Pool(urllib3.HTTPConnectionPool):
        QueueCls = _Queue

    net = fakenet.Net(srv)
    net.install()
    obs = {"shared": [], "results": {}, "net": net, "srv": srv}
    try:
        rt = Retry(total=2, status_forcelist=[503], allowed_methods=None, backoff_factor=0) if cfg.get("retries", "retry") == "retry" else False
        pool = Pool("a.test", 80, maxsize=cfg["maxsize"], block=cfg["block"], retries=rt)
        q = pool.pool
        q.pool_ref = weakref.ref(pool)
        q.parks = []
        q.out_by_requesters = 0
        obs["queue"] = q
        s = sched.Scheduler(decisions=decisions, random_seq=random_seq, targets=POOL_FUNCS_DEEP if deep else POOL_FUNCS, opcode_targets=OPCODE_FUNCS if opcode else ())
        owner: dict = {}

        def owner_check(sock, what):
            me = s.me()
            if me is None or me.name.startswith("closer"):
                return
            cur = owner.get(sock.sid)
            if cur is None:
                owner[sock.sid] = me.name
            elif cur != me.name:
                obs["shared"].append((sock.sid, cur, me.name, what, s.points))

        net.owner_check = owner_check

        def on_return(conn):
            sk = getattr(conn, "sock", None)
            for _ in range(4):
                if sk is None or isinstance(sk, fakenet.FakeSocket):
                    break
                sk = getattr(sk, "_fake", None) or getattr(sk, "_sock", None)
            if isinstance(sk, fakenet.FakeSocket):
                owner.pop(sk.sid, None)

        q.on_return = on_return

        def requester(ti, n):
            def run():
                out = []
                for k in range(n):
                    target = "/t%dr%d" % (ti, k)
                    try:
                        if redirect_empty:
                            r = pool.urlopen("GET", target, pool_timeout=cfg["pool_timeout"], preload_content=False)
                            got = r.read()
                            out.append(("ok", r.status, got, target if not got.startswith(b"</landing") else "/landing"))
                            del r
                        elif head_stream and k < n - 1:
                            r = pool.urlopen("HEAD", target, pool_timeout=cfg["pool_timeout"], preload_content=False)
                            got = b"".join(r.stream(16))  # reading to the end gives the connection back
                            out.append(("ok", r.status, got, target))
                            del r
                        elif partial and k < n - 1:
                            r = pool.urlopen("GET", target, pool_timeout=cfg["pool_timeout"], preload_content=False)
                            got = r.read(5)
                            r.release_conn()
                            out.append(("ok", r.status, got, target))
                            del r
                        else:
                            r = pool.urlopen("GET", target, pool_timeout=cfg["pool_timeout"])
                            out.append(("ok", r.status, r.data, target))
                    except sched.SchedAbort:
                        out.append(("aborted", target))
                        obs["results"][ti] = out
                        raise
                    except BaseException as e:  # noqa: BLE001
                        out.append(("err", type(e), target, str(e)[:200]))
                        del e
                    finally:
                        for sid in [sid for sid, who in owner.items() if who == "req%d" % ti]:
                            del owner[sid]
                    obs["results"][ti] = out
                obs["results"][ti] = out
            return run

        for ti, n in enumerate(cfg["threads"]):
            s.spawn("req%d" % ti, requester(ti, n))
        if cfg["closer"]:
            s.spawn("closer", lambda: pool.close())
        s.run()
        obs["pool_closed"] = pool.pool is None
        obs["max_open_conns"] = net.max_open_conns
        obs["parks"] = list(q.parks)
        # drop the pool (and everything of the harness that refers to it): every socket must be closed afterwards
        q.pool_ref = None
        q.on_return = None
        obs.pop("queue", None)
        for t in s.threads:
            t.fn = None
            t.exc_repr = repr(t.exc) if t.exc is not None else None
        net.owner_check = None
        del pool, q, owner_check, requester, on_return
        gc.collect()
        obs["open_after_drop"] = [x.sid for x in net.sockets if x.connected and not x.really_closed]
    finally:
        net.uninstall()
    return s, obs


def check(cfg, s, obs) -> list[Failure]:
    from urllib3 import exceptions as ue

    fails: list[Failure] = []
    sig0 = {"block": cfg["block"], "closer": cfg["closer"]}
    parks = obs.get("parks", [])
    # a park explains a lost wake-up of the known kind when the queue was already swapped out, or the pool was
    # legitimately exhausted by other requests when the thread started to wait
    kf_parks = [p for p in parks if (not p["queue_is_current"]) or p["out_by_requesters"] >= p["maxsize"]]
    other_parks = [p for p in parks if p not in kf_parks]
    closewait = cfg["closer"] and cfg["block"] and bool(kf_parks) and not other_parks

    def brief():
        res = {k: [(r[0], (r[1] if r[0] == "ok" else r[1].__name__ if r[0] == "err" else "")) for r in v] for k, v in obs["results"].items()}
        return f"{ {k: v for k, v in cfg.items() if k != 'kind'} } schedule={s.taken[:12]} results={res} parks={parks}"

    if s.runaway:
        fails.append(Failure("deadlock", {**sig0, "what": "runaway"}, f"more than {s.max_points} scheduling points: {brief()}"))
        return fails
    if s.deadlock:
        fails.append(Failure("deadlock", {**sig0, "closewait": closewait, "pool_timeout": cfg["pool_timeout"] is not None}, f"no thread can run: {s.deadlock}: {brief()}"))
        return fails
    for t in s.threads:
        if t.exc is not None:
            fails.append(Failure("internal-error", {**sig0, "exc": type(t.exc).__name__, "thread": t.name.rstrip("0123456789")}, f"thread {t.name} died with {type(t.exc).__name__}: {t.exc}: {brief()}"))
    if obs["shared"]:
        sid, a, b, what, pt = obs["shared"][0]
        fails.append(Failure("shared-connection", sig0, f"socket #{sid} was in use by {a} when {b} did a {what} on it (point {pt}): {brief()}"))
    if cfg["block"] and obs["max_open_conns"] > cfg["maxsize"]:
        fails.append(Failure("max-open", sig0, f"{obs['max_open_conns']} connections open at once, maxsize {cfg['maxsize']}: {brief()}"))
    n_failed_by_fault = 0
    for ti, out in obs["results"].items():
        if len(out) != cfg["threads"][ti]:
            fails.append(Failure("incomplete", sig0, f"thread {ti} finished {len(out)} of {cfg['threads'][ti]} requests: {brief()}"))
        for r in out:
            if r[0] == "ok":
                want = fakenet.tag_body(r[3].encode(), 30, 0)[:6]
                tag = b"<" + r[3].encode()
                if cfg.get("head_stream") and r[2] == b"" and r[1] == 200:
                    pass  # the HEAD exchange: no body
                elif cfg.get("partial"):
                    if r[1] != 200 or r[2] not in (TRAP_BODY.encode()[:5], TRAP_BODY.encode()):
                        fails.append(Failure("wrong-response", {**sig0, "partial": True}, f"request {r[3]} received {r[2][:40]!r} (not the body sent for it): {brief()}"))
                elif r[1] == 200 and not r[2].startswith(tag):
                    fails.append(Failure("wrong-response", sig0, f"request {r[3]} received {r[2][:30]!r}: {brief()}"))
                elif r[1] not in (200, 503):
                    fails.append(Failure("wrong-response", {**sig0, "status": r[1]}, f"request {r[3]} got status {r[1]}: {brief()}"))
            elif r[0] == "err":
                ecls, msg = r[1], r[3]
                if issubclass(ecls, ue.ClosedPoolError) and cfg["closer"]:
                    continue
                if issubclass(ecls, ue.EmptyPoolError):
                    fails.append(Failure("lost-wakeup", {**sig0, "closewait": closewait, "pool_timeout": cfg["pool_timeout"] is not None}, f"request {r[2]} failed with EmptyPoolError although every connection was eventually returned: {brief()}"))
                elif not issubclass(ecls, ue.HTTPError):
                    fails.append(Failure("internal-error", {**sig0, "exc": ecls.__name__, "thread": "req"}, f"request {r[2]} raised {ecls.__name__}: {msg}: {brief()}"))
                elif cfg.get("retries", "retry") == "none" and cfg["fault"] in ("rreset", "refused", "garbage") and n_failed_by_fault == 0:
                    n_failed_by_fault += 1  # retries are off: the one scripted fault surfaces as that request's (documented) error
                else:
                    # with one scripted fault and two retries every request can complete
                    fails.append(Failure("spurious-failure", {**sig0, "exc": ecls.__name__}, f"request {r[2]} failed with {ecls.__name__}: {msg}: {brief()}"))
    if obs["open_after_drop"]:
        fails.append(Failure("socket-after-drop", sig0, f"sockets {obs['open_after_drop']} are still open after the pool object was dropped: {brief()}"))
    return fails


def check_case(case):
    if case.get("kind") != "conc":
        raise core.InvalidCase
    dec = {int(i): int(t) for i, t in case.get("decisions", [])}
    s, obs = run_once(case, decisions=dec, random_seq=case.get("random_seq"), deep=bool(case.get("deep")), opcode=bool(case.get("opcode")))
    return check(case, s, obs)


def configs(tier):
    out = []
    for maxsize, block, threads, closer, fault, pto in itertools.product((1, 2), (True, False), ([1, 1], [2, 1], [1, 1, 1]), (False, True), (None, "rreset", "503", "refused", "garbage"), (None, 0.05)):
        if not block and pto is not None:
            continue
        if maxsize == 2 and threads == [1, 1] and not closer:
            continue  # no contention
        out.append({"maxsize": maxsize, "block": block, "threads": threads, "closer": closer, "fault": fault, "fault_at": 0 if fault != "503" else 1, "pool_timeout": pto})
    # responses released after 5 bytes while the rest of the (chunked) body is still on its way
    for maxsize, block, threads in itertools.product((1, 2), (True, False), ([2, 1], [2, 2])):
        out.append({"maxsize": maxsize, "block": block, "threads": threads, "closer": False, "fault": None, "fault_at": 0, "pool_timeout": None, "partial": True})
        out.append({"maxsize": maxsize, "block": block, "threads": threads, "closer": False, "fault": None, "fault_at": 0, "pool_timeout": None, "head_stream": True})
        out.append({"maxsize": maxsize, "block": block, "threads": threads, "closer": False, "fault": None, "fault_at": 0, "pool_timeout": None, "redirect_empty": True})
    # the same with retries switched off: the scripted fault ends its request, the placeholder goes back while others wait
    for maxsize, block, threads, fault, pto in itertools.product((1, 2), (True, False), ([1, 1], [2, 1], [1, 1, 1]), ("rreset", "refused", "garbage"), (None, 0.05)):
        if (not block and pto is not None) or (maxsize == 2 and threads == [1, 1]):
            continue
        out.append({"maxsize": maxsize, "block": block, "threads": threads, "closer": False, "fault": fault, "fault_at": 0, "pool_timeout": pto, "retries": "none"})
    return out


def shards(tier, seed):
    cfgs = configs(tier)
    out = []
    for ci, cfg in enumerate(cfgs):
        small = cfg["maxsize"] == 1 and cfg["threads"] == [1, 1]
        if tier == "quick":
            if ci % 5 == 0 or (small and cfg["fault"] in (None, "rreset", "garbage")) or cfg.get("partial") or cfg.get("head_stream") or (cfg.get("retries") == "none" and cfg["block"] and cfg["maxsize"] == 1):
                out.append({"part": "dfs", "config": ci, "bound": 2 if (small and cfg["fault"] is None and not cfg["closer"]) else 1, "deep": False, "max_runs": 1500})
            out.append({"part": "random", "config": ci, "n": _scale(25), "seed": core.derive_seed(seed, "r", ci), "deep": False})
        else:
            # (bounded by run counts, sized so that the tier takes well under an hour on 16 cores)
            out.append({"part": "dfs", "config": ci, "bound": 3 if (small and cfg["fault"] is None) else 2, "deep": False, "max_runs": 10000 if small else 2000})
            out.append({"part": "dfs", "config": ci, "bound": 1, "deep": True, "max_runs": 2000})
            out.append({"part": "random", "config": ci, "n": _scale(300), "seed": core.derive_seed(seed, "r", ci), "deep": True, "opcode": ci % 2 == 0})
    return out


def run_shard(spec):
    col = core.Collector()
    cfg = configs("any")[spec["config"]]
    if spec["part"] == "dfs":

        def make_run(decisions, rs):
            s, obs = run_once(cfg, decisions=decisions, deep=spec["deep"])
            return s, check(cfg, s, obs)

        for decisions, s, fails in sched.explore(make_run, spec["bound"], max_runs=spec["max_runs"]):
            case = dict(cfg, kind="conc", decisions=sorted([list(x) for x in decisions.items()]), deep=spec["deep"])
            pre = sum(1 for t in s.taken if t[4])
            col.case(case, pre > 0, ["dfs", "preemptions:%d" % pre, "closer:%s" % cfg["closer"], "block:%s" % cfg["block"], "fault:%s" % cfg["fault"]], fails, distinct_by_construction=True)
            for k, v in s.func_events.items():
                col.notes["events:" + k] += v
            col.notes["points"] += s.points
    else:
        from hypothesis import strategies as st

        def body(seq):
            case = dict(cfg, kind="conc", decisions=[], random_seq=list(seq), deep=spec["deep"], opcode=bool(spec.get("opcode")))
            s, obs = run_once(cfg, random_seq=seq, deep=spec["deep"], opcode=bool(spec.get("opcode")))
            col.case(case, any(t[4] for t in s.taken), ["random", "closer:%s" % cfg["closer"], "block:%s" % cfg["block"], "fault:%s" % cfg["fault"]], check(cfg, s, obs))

        core.hyp_run(st.lists(st.integers(0, 63), min_size=10, max_size=400), spec["n"], spec["seed"], body)
    return col


def presets():
    base = {"kind": "conc", "maxsize": 1, "block": True, "threads": [1, 1], "closer": False, "fault": None, "fault_at": 0, "pool_timeout": None, "decisions": []}
    return [base, dict(base, block=False), dict(base, closer=True, block=False), dict(base, threads=[2, 1], maxsize=2, fault="rreset")]


NO_SHRINK = True


def min_nontrivial(tier):
    return 2000
