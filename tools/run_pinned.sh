#!/bin/bash
# usage: tools/run_pinned.sh [tree]   (default /repo)
# Runs the pinned suite (command of /root/.vp/BASELINE.json) on a source tree and compares the junit
# result with BASELINE.json:stable_pass. pytest hangs at exit in this sandbox, hence the timeout wrapper.
tree="${1:-/repo}"
xml="$(mktemp /tmp/pinned.XXXXXX.xml)"
# test_http2_probe_blocked_per_thread is in BASELINE.json:always_fail and sometimes hangs offline: deselected.
# (Deselecting every always_fail test is not possible: four stable tests only pass after some of them ran.)
( cd "$tree" && PYTHONPATH="$tree/src" timeout 900 /venv/bin/python -m pytest -ra -q -p no:cacheprovider --timeout=120 --continue-on-collection-errors --junitxml="$xml" \
   "--deselect=test/contrib/test_pyopenssl.py::TestHTTPS_TLSv1_2::test_http2_probe_blocked_per_thread" \
   "--deselect=test/contrib/test_pyopenssl.py::TestHTTPS_TLSv1_3::test_http2_probe_blocked_per_thread" >/dev/null 2>&1 )
/venv/bin/python - "$xml" <<'PY'
import json, sys
import xml.etree.ElementTree as ET
base = json.load(open("/root/.vp/BASELINE.json"))
stable = set(base["stable_pass"]) - {"::"}
passed = set()
try:
    root = ET.parse(sys.argv[1]).getroot()
except Exception as e:
    print("no junit result:", e); print("PINNED SUITE BROKEN"); sys.exit(1)
for tc in root.iter("testcase"):
    name = f"{tc.get('classname')}::{tc.get('name')}"
    if not any(ch.tag in ("failure", "error", "skipped") for ch in tc):
        passed.add(name)
missing = sorted(stable - passed)
print(f"passed={len(passed)} baseline_stable={len(stable)} baseline_tests_not_passing={len(missing)}")
for m in missing[:20]:
    print("  NOT PASSING:", m)
print("PINNED SUITE OK" if not missing else "PINNED SUITE BROKEN")
sys.exit(0 if not missing else 1)
PY
rc=$?
rm -f "$xml"
exit $rc
