"""Redirect graphs over vlib.world, shared by C05 (policy) and C06 (credentials).

graph = {"origins": [[scheme, host, port], ...],
         "nodes": [{"o": origin index, "code": 200|301|302|303|307|308, "next": node index, "form": FORM}, ...]}
Node 0 is the start.  Targets are assigned by construction (`targets`): node i answers at "/p/n<i>", except
that a node reached through the form "query" lives at "<path of its predecessor>?q=<i>".  Location values
are *built from* the intended next node, so the graph itself is the reference for where each hop must go.
FORM: abs | absport (explicit default port) | netpath (//host/..) | path | rel (n3) | dotdot (../p/n3) | query (?q=3)
"""
from __future__ import annotations

from . import core, fakenet, nulltls, world

DEFAULT_PORT = {"http": 80, "https": 443}
CODES = (301, 302, 303, 307, 308)
FORMS = ("abs", "absport", "netpath", "path", "rel", "dotdot", "query", "abscase")
CONTENT_HEADERS = ("content-encoding", "content-language", "content-location", "content-type", "content-length", "digest", "last-modified")


def validate(graph):
    if not isinstance(graph, dict) or not isinstance(graph.get("nodes"), list) or not isinstance(graph.get("origins"), list):
        raise core.InvalidCase
    nodes, origins = graph["nodes"], graph["origins"]
    if not (1 <= len(nodes) <= 8) or not (1 <= len(origins) <= 4):
        raise core.InvalidCase
    for o in origins:
        if not (isinstance(o, list) and len(o) == 3 and o[0] in ("http", "https") and isinstance(o[1], str) and isinstance(o[2], int)):
            raise core.InvalidCase
    for i, n in enumerate(nodes):
        if not isinstance(n, dict) or n.get("code") not in CODES + (200,) or not (isinstance(n.get("o"), int) and 0 <= n["o"] < len(origins)):
            raise core.InvalidCase
        if n["code"] != 200:
            j = n.get("next")
            if not (isinstance(j, int) and 0 <= j < len(nodes)) or n.get("form") not in FORMS:
                raise core.InvalidCase
            a, b = origins[n["o"]], origins[nodes[j]["o"]]
            f = n["form"]
            if f in ("path", "rel", "dotdot", "query") and a != b:
                raise core.InvalidCase
            if f == "netpath" and a[0] != b[0]:
                raise core.InvalidCase
            if f == "query" and j != i + 1:
                raise core.InvalidCase
    # a query node has exactly its predecessor as "query" in-edge
    for j, n in enumerate(nodes):
        if j > 0 and nodes[j - 1].get("form") == "query" and nodes[j - 1].get("next") == j and nodes[j - 1]["o"] != n["o"]:
            raise core.InvalidCase


def targets(graph):
    out = []
    for i, n in enumerate(graph["nodes"]):
        if i > 0 and graph["nodes"][i - 1].get("code") != 200 and graph["nodes"][i - 1].get("form") == "query" and graph["nodes"][i - 1].get("next") == i:
            out.append(out[i - 1].split("?")[0] + "?q=%d" % i)
        else:
            out.append("/p/n%d" % i)
    return out


def base_url(origin, explicit_port=False, upper=False):
    scheme, host, port = origin
    h = host.upper() if upper else host
    s = scheme.upper() if upper else scheme
    if port == DEFAULT_PORT[scheme] and not explicit_port:
        return f"{s}://{h}"
    return f"{s}://{h}:{port}"


def location(graph, i):
    n = graph["nodes"][i]
    tg = targets(graph)
    j = n["next"]
    dest = graph["origins"][graph["nodes"][j]["o"]]
    t = tg[j]
    f = n["form"]
    if f == "abs":
        return base_url(dest) + t
    if f == "absport":
        return base_url(dest, explicit_port=True) + t
    if f == "abscase":
        return base_url(dest, upper=True) + t
    if f == "netpath":
        return base_url(dest)[len(dest[0]) + 1 :] + t
    if f == "path":
        return t
    if f == "rel":
        return t.rsplit("/", 1)[1]
    if f == "dotdot":
        return "../p/" + t.rsplit("/", 1)[1]
    if f == "query":
        return "?" + t.split("?", 1)[1]
    raise core.InvalidCase


def okey(origin):
    return (origin[0], world.hostkey(origin[1]), origin[2])


class Run:
    """Executes one request against the graph and normalises what every origin saw."""

    def __init__(self, graph, proxy=None):
        validate(graph)
        self.graph = graph
        self.tg = targets(graph)
        self.by_key = {(okey(graph["origins"][n["o"]]), self.tg[i]): i for i, n in enumerate(graph["nodes"])}
        nulltls.reset()
        self.world = world.World(handler=self._handler)
        for o in graph["origins"]:
            self.world.add_origin(o[0], o[1], o[2])
        self.proxy = proxy
        if proxy:
            self.world.add_proxy("http", "proxy.test", 3128)
        self.ctx = nulltls.NullTLSContext("origin")
        self.served = 0
        self.unknown_targets = []

    def _handler(self, w, entry):
        self.served += 1
        t = entry["target"]
        if entry["route"] == "forward" or "://" in t.split("?")[0]:
            # absolute-form: always at a forwarding proxy; an origin server must accept it too (RFC 9112 3.2.2)
            if entry["route"] != "forward" and world._origin_of_absolute(t) != entry["origin"]:
                self.unknown_targets.append((entry["origin"], t))
            t = _target_of_absolute(t)
        i = self.by_key.get((entry["origin"], t))
        entry["node"] = i
        if i is None:
            self.unknown_targets.append((entry["origin"], entry["target"]))
            return {"status": 404, "body_len": 3}
        n = self.graph["nodes"][i]
        if n["code"] == 200 or self.served > 24:
            return {"status": 200, "body_len": 12}
        return {"status": n["code"], "headers": [("Location", location(self.graph, i))], "body_len": 5}

    def start_url(self):
        return base_url(self.graph["origins"][self.graph["nodes"][0]["o"]]) + self.tg[0]

    def contacts(self):
        """[(origin key, method, target path?query, body bytes, header list[(lower name, value)], node index)]"""
        out = []
        for e in self.world.origin_log():
            if e.get("faulted"):
                continue  # the server answered this attempt with a fault: the client retries the same request
            t = e["target"]
            if e["route"] == "forward" or "://" in t.split("?")[0]:
                t = _target_of_absolute(t)
            hs = [(k.strip().lower().decode("latin-1"), (v or b"").decode("latin-1")) for k, v in e["msg"].headers()]
            out.append({"origin": e["origin"], "method": e["method"], "target": t, "body": e["msg"].body, "framing": e["msg"].framing, "headers": hs, "node": e.get("node"), "route": e["route"], "raw_target": e["target"]})
        return out


def _target_of_absolute(t: str) -> str:
    scheme, sep, rest = t.partition("://")
    if not sep:
        return t
    for idx, ch in enumerate(rest):
        if ch in "/?#":
            tail = rest[idx:]
            return tail if tail.startswith("/") else "/" + tail
    return "/"


def reference_walk(graph, follow_limit):
    """Node indices the servers must see, in order, when at most follow_limit redirects may be followed."""
    seq = [0]
    nodes = graph["nodes"]
    while nodes[seq[-1]]["code"] != 200 and len(seq) - 1 < follow_limit and len(seq) < 25:
        seq.append(nodes[seq[-1]]["next"])
    return seq


# ---- policies ---------------------------------------------------------------------------------


def policy_budget(spec):
    """-> (max redirects that may be followed, raise_on_redirect) from the documented meaning of the value."""
    t = spec["t"]
    if t == "none":
        return 3, True
    if t == "false":
        return 0, False
    if t == "int":
        return spec["v"], True
    red, tot = spec.get("redirect", None), spec.get("total", 10)
    ror = spec.get("ror", True)
    if red is False or tot is False:
        return 0, False
    cands = [x for x in (red, tot) if x is not None]
    return (min(cands) if cands else 10**6), ror


def make_policy(spec):
    from urllib3.util.retry import Retry

    t = spec["t"]
    if t == "none":
        return None
    if t == "false":
        return False
    if t == "int":
        return spec["v"]
    kw = {}
    if "total" in spec:
        kw["total"] = spec["total"]
    if "redirect" in spec:
        kw["redirect"] = spec["redirect"]
    if "ror" in spec:
        kw["raise_on_redirect"] = spec["ror"]
    if "rm" in spec:
        kw["remove_headers_on_redirect"] = list(spec["rm"])
    return Retry(**kw)


def validate_policy(spec):
    if not isinstance(spec, dict) or spec.get("t") not in ("none", "false", "int", "retry"):
        raise core.InvalidCase
    if spec["t"] == "int" and not (isinstance(spec.get("v"), int) and not isinstance(spec["v"], bool) and 0 <= spec["v"] <= 8):
        raise core.InvalidCase
    if spec["t"] == "retry":
        for k in ("total", "redirect"):
            v = spec.get(k, 1)
            if not (v is None or v is False or (isinstance(v, int) and not isinstance(v, bool) and 0 <= v <= 10)):
                raise core.InvalidCase
        if spec.get("total", 10) is None and spec.get("redirect") is None:
            raise core.InvalidCase  # unbounded: not generated
        if not isinstance(spec.get("ror", True), bool):
            raise core.InvalidCase
        if "rm" in spec and not (isinstance(spec["rm"], list) and all(isinstance(x, str) for x in spec["rm"])):
            raise core.InvalidCase
