"""C05 - redirects are followed only as far as the effective retry policy allows."""
from __future__ import annotations

import io
import itertools
import os

from vlib import core, fakenet, redirects
from vlib.core import Failure

PROP = "C05"
RULE = (
    "a case is (redirect graph over <= 3 origins [http a.test:80, http b.test:8080, https c.test:443] with chains / loops "
    "of <= 6 hops, each hop a 301/302/303/307/308 whose Location is absolute / explicit-default-port / upper-case / "
    "scheme-relative / path / relative segment / ../ / ?query; entry point PoolManager | ProxyManager (forwarding + "
    "CONNECT tunnel) | bare HTTPConnectionPool; policy value None | False | int | Retry(redirect=k) | Retry(total=k) | "
    "Retry(.., raise_on_redirect=False) at request level, pool/manager level (for a bare pool also as `pool_kwargs` of a manager's connection_from_url), or both; redirect=False; method GET/POST/PUT "
    "with bytes or seekable-file body and content headers; optionally a connection reset, or a 503 with Retry-After: 0, on one or two hops so that the hop is retried). The graph is the reference: Location values are built from "
    "the intended next node, so the sequence of (origin, method, target, body, content headers) the SERVERS saw must be "
    "a prefix of the graph walk, not longer than 1 + budget. Non-trivial = the chain has >= 2 hops and the budget is hit, "
    "or a hop crosses origins, or a 303 occurs."
)
ASSUMPTIONS = [
    "vlib/world.py + vlib/nulltls.py: in-memory origins and proxy, https by the marker-handshake null TLS (routing only)",
    "budget of a policy value is read from the documentation: False -> 0 and the 3xx is returned; int k -> k; Retry(redirect=r,total=t) -> min of the given ones (total defaults to 10)",
    "a bare pool is only given same-host chains with absolute or path Locations (relative resolution is a PoolManager clause)",
]
EXHAUSTIVE = {"quick": False, "thorough": False}

ORIGINS = [["http", "a.test", 80], ["http", "b.test", 8080], ["https", "c.test", 443]]
POLICIES = [
    {"t": "none"}, {"t": "false"}, {"t": "int", "v": 0}, {"t": "int", "v": 1}, {"t": "int", "v": 2},
    {"t": "retry", "redirect": 0}, {"t": "retry", "redirect": 1}, {"t": "retry", "redirect": 2}, {"t": "retry", "total": 0}, {"t": "retry", "total": 1}, {"t": "retry", "total": 2},
    {"t": "retry", "total": 2, "ror": False}, {"t": "retry", "redirect": 1, "ror": False}, {"t": "retry", "total": 5, "redirect": 1}, {"t": "retry", "total": 1, "redirect": 5},
    {"t": "retry", "redirect": False}, {"t": "retry", "total": False}, {"t": "retry", "total": None, "redirect": 2},
]


def _scale(n):
    return max(1, int(n * float(os.environ.get("VERIF_SCALE", "1"))))


def effective(case):
    """(policy spec in effect, follow?)"""
    if case.get("req_policy") is not None and case["req_policy"]["t"] != "none":
        spec = case["req_policy"]
    elif case.get("mgr_policy") is not None and case["mgr_policy"]["t"] != "none":
        spec = case["mgr_policy"]
    else:
        spec = {"t": "none"}
    return spec


def run_case(case) -> list[Failure]:
    import urllib3
    from urllib3 import exceptions as ue

    if case.get("kind") != "redir" or case.get("entry") not in ("pm", "proxy", "pool") or case.get("method") not in ("GET", "POST", "PUT", "DELETE"):
        raise core.InvalidCase
    graph = case["graph"]
    redirects.validate(graph)
    if graph["origins"] != ORIGINS:
        raise core.InvalidCase
    for k in ("req_policy", "mgr_policy"):
        if case.get(k) is not None:
            redirects.validate_policy(case[k])
    if case.get("body") not in (None, "bytes", "file") or not isinstance(case.get("redirect_kw", True), bool):
        raise core.InvalidCase
    if case.get("via_pool_kwargs") and (case["entry"] != "pool" or case.get("mgr_policy") is None):
        raise core.InvalidCase
    if case["entry"] == "pool":
        o0 = graph["nodes"][0]["o"]
        if graph["origins"][o0][0] != "http" or any(n["o"] != o0 or n.get("form", "abs") not in ("abs", "path", "absport") for n in graph["nodes"]):
            raise core.InvalidCase
    run = redirects.Run(graph, proxy=(case["entry"] == "proxy"))
    spec = effective(case)
    budget, ror = redirects.policy_budget(spec)
    faults = case.get("faults") or []
    if faults:
        # a reset instead of a response on the i-th request: the (idempotent) request is retried on error, which
        # costs one unit of `total`; only generated where that arithmetic is unambiguous
        if not isinstance(faults, list) or len(faults) > 2 or any(not isinstance(i, int) or not (0 <= i <= 6) for i in faults) or case["method"] not in ("GET", "DELETE") or case.get("body") is not None:
            raise core.InvalidCase
        tot = {"none": 3, "int": spec.get("v"), "retry": spec.get("total", 10), "false": False}[spec["t"]]
        if tot is False or tot is None or tot < len(faults) + 1:
            raise core.InvalidCase
        red = spec.get("redirect") if spec["t"] == "retry" else None
        if red is False:
            raise core.InvalidCase
        # The statement bounds the REDIRECTS by the redirect/total budget; whether an error retry inside a hop is charged to
        # the same total differs between the bare pool (charged) and the managers (not charged) - both satisfy the
        # statement, so with faults only the upper bound, the walk and the no-follow clauses are asserted.
        budget = min(x for x in (red, tot) if x is not None)
        fk = case.get("fault_kind", "reset")
        if fk not in ("reset", "busy"):
            raise core.InvalidCase
        # "busy": a 503 with Retry-After: 0 instead of the hop's response - a status retry of the same (idempotent) request
        run.world.fault_plan = {i: fk for i in faults}
    follow = case.get("redirect_kw", True) and spec["t"] != "false"
    if not case.get("redirect_kw", True):
        budget_eff = 0
    else:
        budget_eff = budget
    method = case["method"]
    payload = b"field=value&x=1" if case.get("body") else None
    hdrs = {"X-Keep": "1", "Accept-Language": "en"}
    if payload is not None:
        hdrs.update({"Content-Type": "application/x-www-form-urlencoded", "Content-Language": "en"})
    result = exc = None
    fails: list[Failure] = []
    sig0 = {"entry": case["entry"]}
    req_pol = redirects.make_policy(case["req_policy"]) if case.get("req_policy") is not None else None
    mgr_pol = redirects.make_policy(case["mgr_policy"]) if case.get("mgr_policy") is not None else None
    with fakenet.Net(run.world):
        kw_mgr = {"retries": mgr_pol} if case.get("mgr_policy") is not None else {}
        kw_req = {"retries": req_pol} if case.get("req_policy") is not None else {}
        if not case.get("redirect_kw", True):
            kw_req["redirect"] = False
        body = payload if case.get("body") != "file" else io.BytesIO(payload)
        if case["entry"] == "pm":
            obj = urllib3.PoolManager(ssl_context=run.ctx, **kw_mgr)
            url = run.start_url()
        elif case["entry"] == "proxy":
            obj = urllib3.ProxyManager("http://proxy.test:3128", ssl_context=run.ctx, **kw_mgr)
            url = run.start_url()
        else:
            o = graph["origins"][graph["nodes"][0]["o"]]
            if case.get("via_pool_kwargs"):
                # the pool is obtained from a manager and the policy is handed over as a per-pool override
                mgr0 = urllib3.PoolManager()
                obj = mgr0.connection_from_url(f"http://{o[1]}:{o[2]}/", pool_kwargs=dict(kw_mgr))
            else:
                obj = urllib3.HTTPConnectionPool(o[1], o[2], **kw_mgr)
            url = run.tg[0]
        try:
            result = obj.urlopen(method, url, body=body, headers=hdrs, **kw_req)
        except BaseException as e:  # noqa: BLE001
            if type(e).__name__ == "CaseTimeout":
                raise
            exc = e
        finally:
            try:
                obj.clear() if case["entry"] != "pool" else obj.close()
            except Exception:  # noqa: BLE001
                pass
    contacts = run.contacts()
    ref = redirects.reference_walk(graph, budget_eff if follow or budget_eff == 0 else 0)
    nodes = graph["nodes"]

    def brief():
        return (f"{ {k: v for k, v in case.items() if k not in ('kind', 'graph')} } graph={[(n['o'], n['code'], n.get('next'), n.get('form')) for n in nodes]} -> servers saw "
                f"{[((c['origin'] or ('?', '?', 0))[1], c['method'], c['target']) for c in contacts]}, result {('status %d' % result.status) if result is not None else type(exc).__name__ + ': ' + str(exc)[:100]}")

    if run.world.violations:
        fails.append(Failure("wire", {**sig0, "what": run.world.violations[0][0]}, f"{run.world.violations[:2]}: {brief()}"))
    if run.world.refused:
        fails.append(Failure("walk", {**sig0, "what": "dialled-unknown-host"}, f"dialled {run.world.refused[:2]}: {brief()}"))
    # ---- S2: never more redirects than the budget
    if len(contacts) > 1 + budget_eff:
        which = "no-follow" if budget_eff == 0 and (spec["t"] == "false" or not case.get("redirect_kw", True) or (spec["t"] == "retry" and (spec.get("redirect") is False or spec.get("total") is False))) else "budget"
        fails.append(Failure(which, {**sig0, "place": _place(case), "policy": spec["t"]}, f"the policy in effect ({spec}) allows {budget_eff} redirects but {len(contacts) - 1} were followed: {brief()}"))
    # ---- S1: what the servers saw is a prefix of the graph walk
    cur_method, cur_body = method, payload
    for idx, c in enumerate(contacts):
        want_node = None
        if idx == 0:
            want_node = 0
        else:
            prev = nodes[contacts[idx - 1]["node"]] if contacts[idx - 1]["node"] is not None else None
            want_node = prev["next"] if prev and prev["code"] != 200 else None
            if prev is not None and prev["code"] == 303:
                cur_method, cur_body = "GET", None
        if want_node is None:
            fails.append(Failure("walk", {**sig0, "what": "request-after-final"}, f"request {idx} follows a non-redirect response: {brief()}"))
            break
        want_origin = redirects.okey(graph["origins"][nodes[want_node]["o"]])
        want_target = run.tg[want_node]
        if c["origin"] != want_origin or c["target"] != want_target:
            form = nodes[contacts[idx - 1]["node"]].get("form") if idx else "start"
            fails.append(Failure("walk", {**sig0, "what": "wrong-destination", "form": form}, f"hop {idx} went to {c['origin']} {c['target']}, the Location ({redirects.location(graph, contacts[idx - 1]['node']) if idx else '-'}) names {want_origin} {want_target}: {brief()}"))
            break
        if c["method"] != cur_method:
            fails.append(Failure("method", {**sig0, "after": nodes[contacts[idx - 1]["node"]]["code"] if idx else 0}, f"hop {idx} used {c['method']}, expected {cur_method}: {brief()}"))
        if (cur_body or b"") != c["body"]:
            fails.append(Failure("body", {**sig0, "after": nodes[contacts[idx - 1]["node"]]["code"] if idx else 0, "empty": c["body"] == b""}, f"hop {idx} carried body {c['body'][:30]!r}, expected {cur_body!r}: {brief()}"))
        names = [k for k, _ in c["headers"]]
        if cur_body is None and payload is not None:
            left = [k for k in names if k in redirects.CONTENT_HEADERS or k == "transfer-encoding"]
            if left:
                fails.append(Failure("content-headers", {**sig0, "what": "kept-after-303"}, f"hop {idx} follows a 303 but still carries {left}: {brief()}"))
        elif payload is not None:
            for k in ("content-type", "content-language"):
                if k not in names:
                    fails.append(Failure("content-headers", {**sig0, "what": "lost"}, f"hop {idx} lost the caller's {k}: {brief()}"))
        for k in ("x-keep", "accept-language"):
            if k not in names:
                fails.append(Failure("content-headers", {**sig0, "what": "lost-other"}, f"hop {idx} lost the caller's {k}: {brief()}"))
    # ---- S4: how it ended
    if not fails and not faults:
        last = nodes[contacts[-1]["node"]] if contacts and contacts[-1]["node"] is not None else None
        if last is None:
            fails.append(Failure("ending", {**sig0, "what": "nothing-sent"}, brief()))
        elif last["code"] == 200:
            if exc is not None or result.status != 200:
                fails.append(Failure("ending", {**sig0, "what": "final-200"}, f"the chain ended in a 200: {brief()}"))
        else:
            exhausted = len(contacts) - 1 >= budget_eff
            if exc is not None and not isinstance(exc, ue.MaxRetryError):
                fails.append(Failure("ending", {**sig0, "what": "exception", "exc": type(exc).__name__}, brief()))
            elif exhausted:
                want_raise = ror and follow and case.get("redirect_kw", True)
                if want_raise and exc is None:
                    fails.append(Failure("ending", {**sig0, "what": "returned-instead-of-raising", "place": _place(case)}, f"budget exhausted with raise_on_redirect set, expected MaxRetryError: {brief()}"))
                elif not want_raise and exc is not None:
                    fails.append(Failure("ending", {**sig0, "what": "raised-instead-of-returning", "place": _place(case)}, f"expected the last 3xx response to be returned: {brief()}"))
                elif exc is None and result.status != last["code"]:
                    fails.append(Failure("ending", {**sig0, "what": "wrong-response"}, f"expected the last 3xx ({last['code']}): {brief()}"))
            else:
                # stopped before the budget was used although redirects are enabled
                fails.append(Failure("liveness", {**sig0, "place": _place(case)}, f"stopped after {len(contacts) - 1} redirects with a budget of {budget_eff}: {brief()}"))
    return fails


def _place(case):
    r, m = case.get("req_policy") is not None, case.get("mgr_policy") is not None
    return "both" if r and m else ("request" if r else ("manager" if m else "default"))


def check_case(case):
    res, timed_out = core.guarded(run_case, case)
    if timed_out:
        return [Failure("terminates", {"entry": case.get("entry")}, f"{case}: the call did not return")]
    return res


def nontrivial(case):
    nodes = case["graph"]["nodes"]
    chain = 0
    i, seen = 0, set()
    while nodes[i]["code"] != 200 and i not in seen and chain < 10:
        seen.add(i)
        chain += 1
        i = nodes[i]["next"]
    cross = any(n["code"] != 200 and nodes[n["next"]]["o"] != n["o"] for n in nodes)
    budget, _ = redirects.policy_budget(effective(case))
    return chain >= 2 and (budget < chain or cross or any(n["code"] == 303 for n in nodes))


def classes(case):
    out = ["entry:" + case["entry"], "place:" + _place(case), "policy:" + effective(case)["t"], "method:" + case["method"], "body:" + str(case.get("body"))]
    for n in case["graph"]["nodes"]:
        if n["code"] != 200:
            out.append("code:%d" % n["code"])
            out.append("form:" + n["form"])
    if not case.get("redirect_kw", True):
        out.append("redirect=False")
    nodes = case["graph"]["nodes"]
    if any(n["code"] != 200 and n["next"] <= i for i, n in enumerate(nodes)):
        out.append("loop")
    return out


# --------------------------------------------------------------------------- generation


def chain_graph(hops, loop_to=None):
    """hops = [(origin, code, form)] ; the node after the last hop is a 200 on next origin (or a loop back)."""
    nodes = []
    for i, (o, code, form, nxt_o) in enumerate(hops):
        nodes.append({"o": o, "code": code, "next": i + 1, "form": form})
    if loop_to is not None and nodes:
        nodes[-1]["next"] = loop_to
        if nodes[-1]["form"] == "query":
            nodes[-1]["form"] = "abs"
    else:
        nodes.append({"o": hops[-1][3] if hops else 0, "code": 200})
    # fix origins of nodes to match the hop destinations
    for i in range(1, len(nodes)):
        nodes[i]["o"] = hops[i - 1][3] if i - 1 < len(hops) else nodes[i]["o"]
    return {"origins": ORIGINS, "nodes": nodes}


def forms_for(a, b):
    fs = ["abs", "absport", "abscase"]
    if ORIGINS[a][0] == ORIGINS[b][0]:
        fs.append("netpath")
    if a == b:
        fs += ["path", "rel", "dotdot", "query"]
    return fs


def enum_cases(tier):
    """All chains of length <= 2 (quick) / 3 (thorough) x codes x policy x placement x entry (sampled forms)."""
    L = 2 if tier == "quick" else 3
    k = 0
    for n in range(1, L + 1):
        for origins in itertools.product(range(3), repeat=n + 1):
            for codes in itertools.product(redirects.CODES, repeat=n):
                if tier == "quick" and n == 2 and codes[0] != codes[1] and 303 not in codes:
                    continue
                for pol in POLICIES:
                    for entry in ("pm", "proxy"):
                        k += 1
                        hops = []
                        for i in range(n):
                            fs = forms_for(origins[i], origins[i + 1])
                            hops.append((origins[i], codes[i], fs[(k + i) % len(fs)], origins[i + 1]))
                        g = chain_graph(hops)
                        place = core.pick(k, 1, ("request", "manager", "both"))
                        method = core.pick(k, 2, ("GET", "POST", "PUT"))
                        case = {"kind": "redir", "entry": entry, "graph": g, "method": method, "body": (None if method == "GET" else core.pick(k, 3, ("bytes", "file"))),
                                "req_policy": pol if place in ("request", "both") else None,
                                "mgr_policy": (pol if place == "manager" else ({"t": "int", "v": 5} if place == "both" else None)), "redirect_kw": True}
                        yield case
    # bare pool, same host
    for n in range(1, L + 2):
        for codes in itertools.product(redirects.CODES, repeat=n):
            if n > 2 and len(set(codes)) > 1:
                continue
            for pol in POLICIES:
                for place in ("request", "manager"):
                    k += 1
                    hops = [(0, codes[i], ("abs", "path", "absport")[(k + i) % 3], 0) for i in range(n)]
                    c0 = {"kind": "redir", "entry": "pool", "graph": chain_graph(hops), "method": ("GET", "POST")[k % 2], "body": (None, "bytes")[k % 2],
                          "req_policy": pol if place == "request" else None, "mgr_policy": pol if place == "manager" else None, "redirect_kw": True}
                    yield c0
                    if place == "manager":
                        yield dict(c0, via_pool_kwargs=True)
    # a connection error or a retryable status (503 + Retry-After) on one hop (the request is retried) inside a redirect chain
    for entry in ("pm", "proxy", "pool"):
        for code in (302, 307, 303):
            for fault_at in (0, 1, 2):
                for pol in ({"t": "retry", "redirect": 1}, {"t": "retry", "redirect": 3}, {"t": "none"}, {"t": "int", "v": 3}):
                    for redirect_kw in (True, False):
                        for place in ("request", "manager"):
                            k += 1
                            o1, o2 = (0, 0) if entry == "pool" else (1, 2)
                            g = chain_graph([(0, code, "abs", o1), (o1, code, "abs" if entry == "pool" else "netpath" if ORIGINS[o1][0] == ORIGINS[o2][0] else "abs", o2), (o2, code, "path", o2)])
                            for fk in ("reset", "busy"):
                                yield {"kind": "redir", "entry": entry, "graph": g, "method": "GET", "body": None, "req_policy": pol if place == "request" else None, "mgr_policy": pol if place == "manager" else None,
                                       "redirect_kw": redirect_kw, "faults": [fault_at], "fault_kind": fk}
    # redirect=False and loops
    for entry in ("pm", "proxy", "pool"):
        for code in redirects.CODES:
            for pol in (None, {"t": "int", "v": 3}, {"t": "retry", "redirect": 2}):
                o2 = 0 if entry == "pool" else 1
                yield {"kind": "redir", "entry": entry, "graph": chain_graph([(0, code, "abs", o2)]), "method": "POST", "body": "bytes", "req_policy": pol, "mgr_policy": None, "redirect_kw": False}
                yield {"kind": "redir", "entry": entry, "graph": chain_graph([(0, code, "abs", o2), (o2, code, "abs", 0)], loop_to=0), "method": "GET", "body": None, "req_policy": pol, "mgr_policy": None, "redirect_kw": True}


def _hyp():
    from hypothesis import strategies as st

    pol = st.one_of(st.sampled_from(POLICIES), st.builds(lambda r, t, ror: {"t": "retry", "redirect": r, "total": t, "ror": ror}, st.sampled_from([None, 0, 1, 2, 3, 6]), st.sampled_from([0, 1, 2, 3, 6, 10]), st.booleans()))

    @st.composite
    def case(draw):
        entry = draw(st.sampled_from(["pm", "pm", "proxy", "proxy", "pool"]))
        n = draw(st.integers(1, 6))
        if entry == "pool":
            os_ = [0] * (n + 1)
        else:
            os_ = [draw(st.integers(0, 2)) for _ in range(n + 1)]
        hops = []
        for i in range(n):
            fs = forms_for(os_[i], os_[i + 1]) if entry != "pool" else ["abs", "path", "absport"]
            hops.append((os_[i], draw(st.sampled_from(redirects.CODES)), draw(st.sampled_from(fs)), os_[i + 1]))
        loop = draw(st.integers(0, 9))
        g = chain_graph(hops, loop_to=(draw(st.integers(0, n - 1)) if loop == 0 else None))
        if loop == 0:
            # the loop edge must be legal for its form
            last = g["nodes"][-1]
            last["form"] = "abs"
            for i, nd in enumerate(g["nodes"]):
                if nd["code"] != 200 and nd["form"] == "query" and nd["next"] != i + 1:
                    nd["form"] = "abs"
        place = draw(st.sampled_from(["request", "manager", "both", "default"]))
        method = draw(st.sampled_from(["GET", "POST", "PUT", "DELETE"]))
        c = {"kind": "redir", "entry": entry, "graph": g, "method": method, "body": None if method in ("GET", "DELETE") else draw(st.sampled_from(["bytes", "file"])),
             "req_policy": draw(pol) if place in ("request", "both") else None, "mgr_policy": draw(pol) if place in ("manager", "both") else None,
             "redirect_kw": draw(st.integers(0, 7)) != 0}
        if entry == "pool" and c["mgr_policy"] is not None and draw(st.booleans()):
            c["via_pool_kwargs"] = True
        if method in ("GET", "DELETE") and draw(st.integers(0, 2)) == 0:
            c["faults"] = sorted(set(draw(st.lists(st.integers(0, 4), min_size=1, max_size=2))))
            c["fault_kind"] = draw(st.sampled_from(["reset", "busy"]))
        return c

    return case()


def shards(tier, seed):
    total = sum(1 for _ in enum_cases(tier))
    out = [{"part": "enum", "tier": tier, "lo": a, "hi": b} for a, b in core.split_range(total, 32 if tier == "quick" else 96)]
    n = _scale(8000 if tier == "quick" else 100000)
    nsh = 16 if tier == "quick" else 48
    for i in range(nsh):
        out.append({"part": "random", "n": n // nsh, "seed": core.derive_seed(seed, "r", i)})
    return out


def run_shard(spec):
    col = core.Collector()
    if spec["part"] == "enum":
        for i, case in enumerate(enum_cases(spec["tier"])):
            if spec["lo"] <= i < spec["hi"]:
                try:
                    col.case(case, nontrivial(case), classes(case), check_case(case), distinct_by_construction=True)
                except core.InvalidCase:
                    col.note("invalid_generated")
    else:

        def body(case):
            try:
                col.case(case, nontrivial(case), classes(case), check_case(case))
            except core.InvalidCase:
                col.note("invalid_generated")

        core.hyp_run(_hyp(), spec["n"], spec["seed"], body)
    return col


def presets():
    g1 = chain_graph([(0, 302, "abs", 1)])
    return [
        {"kind": "redir", "entry": "pm", "graph": g1, "method": "GET", "body": None, "req_policy": None, "mgr_policy": {"t": "retry", "redirect": 0}, "redirect_kw": True},  # D1
        {"kind": "redir", "entry": "pm", "graph": g1, "method": "GET", "body": None, "req_policy": None, "mgr_policy": {"t": "false"}, "redirect_kw": True},  # D1
        {"kind": "redir", "entry": "proxy", "graph": chain_graph([(0, 303, "abs", 2), (2, 307, "path", 2)]), "method": "POST", "body": "file", "req_policy": {"t": "int", "v": 3}, "mgr_policy": None, "redirect_kw": True},
        {"kind": "redir", "entry": "pool", "graph": chain_graph([(0, 301, "path", 0), (0, 308, "abs", 0)]), "method": "POST", "body": "bytes", "req_policy": {"t": "retry", "total": 1, "ror": False}, "mgr_policy": None, "redirect_kw": True},
    ]


def min_nontrivial(tier):
    return 2000
