"""Shared machinery: cases, failures, collectors, hashing, hypothesis driver.

Every property module (props/cXX.py) produces JSON-able *cases*, evaluates each
with an explicit oracle and reports `Failure`s to a `Collector` instead of
raising, so that one shallow defect does not hide what lies behind it.
"""
from __future__ import annotations

import dataclasses
import hashlib
import json
import os
import time
import typing
from collections import Counter


class HarnessError(Exception):
    """Something is wrong with the checking machinery (exit 2, never a violation)."""


class InvalidCase(Exception):
    """Raised by check_case for a case outside the generator's domain (shrinking)."""


def canon(obj: typing.Any) -> str:
    return json.dumps(obj, sort_keys=True, separators=(",", ":"), default=_default)


def _default(o: typing.Any) -> typing.Any:
    if isinstance(o, (bytes, bytearray)):
        return {"__b__": bytes(o).hex()}
    if isinstance(o, (set, frozenset)):
        return sorted(o, key=repr)
    if isinstance(o, tuple):
        return list(o)
    return repr(o)


def h64(obj: typing.Any) -> int:
    if not isinstance(obj, (str, bytes)):
        obj = canon(obj)
    if isinstance(obj, str):
        obj = obj.encode("utf-8", "surrogatepass")
    return int.from_bytes(hashlib.blake2b(obj, digest_size=8).digest(), "big")


def b2j(b: bytes) -> str:
    """bytes -> JSON-able latin-1 string (lossless)."""
    return b.decode("latin-1")


def j2b(s: str) -> bytes:
    return s.encode("latin-1")


@dataclasses.dataclass
class Failure:
    clause: str  # which clause of the property is violated
    sig: dict  # structured discriminators (used for bucketing and known-finding matching)
    msg: str  # human-readable detail

    def bucket(self) -> str:
        return canon({"clause": self.clause, **self.sig})

    def to_json(self) -> dict:
        return {"clause": self.clause, "sig": self.sig, "msg": self.msg}


MAX_HASHES = 3_000_000


class Collector:
    """Per-shard accumulator (picklable summary via .out())."""

    def __init__(self, max_samples_per_class: int = 1, max_fail_per_bucket: int = 3):
        self.evaluations = 0
        self.nontrivial_hashes: set[int] = set()
        self.nontrivial_counted = 0  # distinct-by-construction count (enumerations)
        self.classes: Counter[str] = Counter()
        self.samples: dict[str, list] = {}
        self.failures: dict[str, list] = {}
        self.fail_counts: Counter[str] = Counter()
        self.notes: Counter[str] = Counter()
        self.extra: dict[str, typing.Any] = {}
        self._msc = max_samples_per_class
        self._mfb = max_fail_per_bucket
        self.truncated = False
        self.t0 = time.time()

    def case(
        self,
        case: typing.Any,
        nontrivial: bool,
        classes: typing.Iterable[str] = (),
        failures: typing.Iterable[Failure] = (),
        distinct_by_construction: bool = False,
    ) -> None:
        self.evaluations += 1
        if nontrivial:
            if distinct_by_construction:
                self.nontrivial_counted += 1
            elif len(self.nontrivial_hashes) < MAX_HASHES:
                self.nontrivial_hashes.add(h64(case))
        for c in classes:
            self.classes[c] += 1
            lst = self.samples.setdefault(c, [])
            if len(lst) < self._msc:
                lst.append(case)
        if not classes and not self.samples.get("_any"):
            self.samples.setdefault("_any", []).append(case)
        for f in failures:
            b = f.bucket()
            self.fail_counts[b] += 1
            lst = self.failures.setdefault(b, [])
            if len(lst) < self._mfb:
                lst.append({"case": case, "failure": f.to_json()})
            elif len(canon(case)) < len(canon(lst[-1]["case"])):
                # keep the smallest examples seen
                lst[-1] = {"case": case, "failure": f.to_json()}
                lst.sort(key=lambda e: len(canon(e["case"])))

    def note(self, key: str, n: int = 1) -> None:
        self.notes[key] += n

    def out(self) -> dict:
        return {
            "evaluations": self.evaluations,
            "nontrivial_hashes": self.nontrivial_hashes,
            "nontrivial_counted": self.nontrivial_counted,
            "classes": dict(self.classes),
            "samples": self.samples,
            "failures": self.failures,
            "fail_counts": dict(self.fail_counts),
            "notes": dict(self.notes),
            "extra": self.extra,
            "truncated": self.truncated,
            "wall_s": time.time() - self.t0,
        }


def pick(k: int, salt: int, seq):
    """Deterministic, decorrelated rotation through `seq` inside an enumeration: unlike `seq[k % len(seq)]` two
    selectors with different salts do not move in lock-step with each other or with the loop structure."""
    x = (k * 2654435761 + salt * 40503 + 12345) & 0xFFFFFFFF
    x ^= x >> 15
    x = (x * 2246822519) & 0xFFFFFFFF
    x ^= x >> 13
    return seq[x % len(seq)]


def derive_seed(seed: int, *parts: typing.Any) -> int:
    return h64(canon([seed, *parts])) & 0x7FFFFFFF


def hyp_run(strategy, n: int, seed: int, body: typing.Callable[[typing.Any], None]) -> None:
    """Drive `body` with `n` Hypothesis-generated values of `strategy`.

    Deterministic in (`seed`, strategy, code). Generation only: failures are
    collected by `body`, not raised; shrinking is done by vlib.shrink on the
    JSON case so the replay bypasses Hypothesis.
    """
    import hypothesis
    from hypothesis import HealthCheck, Phase, given, settings

    @hypothesis.seed(seed)
    @settings(
        max_examples=n,
        database=None,
        deadline=None,
        derandomize=False,
        report_multiple_bugs=False,
        phases=[Phase.generate],
        suppress_health_check=[
            HealthCheck.too_slow,
            HealthCheck.data_too_large,
            HealthCheck.large_base_example,
        ],
    )
    @given(strategy)
    def _t(value):
        body(value)

    try:
        _t()
    except hypothesis.errors.FailedHealthCheck as e:  # generator problem, not a defect
        raise HarnessError(f"hypothesis health check failed: {e}") from e


def budget_s(default: float | None = None) -> float | None:
    v = os.environ.get("VERIF_BUDGET_S")
    return float(v) if v else default


def split_range(n: int, k: int) -> list[tuple[int, int]]:
    """Partition range(n) into k contiguous index ranges."""
    k = max(1, min(k, n)) if n else 1
    step, rem = divmod(n, k)
    out, a = [], 0
    for i in range(k):
        b = a + step + (1 if i < rem else 0)
        out.append((a, b))
        a = b
    return out


class CaseTimeout(BaseException):
    """Raised inside a case by the watchdog (a single case never needs more than seconds)."""


class time_limit:
    """with time_limit(30): ...  -> raises CaseTimeout in the main thread of the worker after 30 s wall."""

    def __init__(self, seconds: float):
        self.seconds = seconds
        self._old = None
        self._armed = False

    def __enter__(self):
        import signal
        import threading

        if threading.current_thread() is threading.main_thread() and hasattr(signal, "setitimer"):
            def _h(signum, frame):
                raise CaseTimeout()

            self._old = signal.signal(signal.SIGALRM, _h)
            signal.setitimer(signal.ITIMER_REAL, self.seconds)
            self._armed = True
        return self

    def __exit__(self, *a):
        import signal

        if self._armed:
            signal.setitimer(signal.ITIMER_REAL, 0)
            signal.signal(signal.SIGALRM, self._old)
        return False


CASE_LIMIT_S = float(os.environ.get("VERIF_CASE_LIMIT_S", "20"))

_timeouts_seen = 0


def guarded(fn, *args):
    """Run fn(*args) under the per-case watchdog. Returns (result, timed_out).
    After 3 timeouts in one process the limit drops to 2 s so that a tree that hangs on a
    whole class of cases still finishes (violations are already recorded by then)."""
    global _timeouts_seen
    limit = CASE_LIMIT_S if _timeouts_seen < 3 else min(2.0, CASE_LIMIT_S)
    try:
        with time_limit(limit):
            return fn(*args), False
    except CaseTimeout:
        _timeouts_seen += 1
        return None, True
