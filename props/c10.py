"""C10 - no input can inject into or split the HTTP request on the wire."""
from __future__ import annotations

import itertools
import os

from vlib import core, fakenet, refurl, reqwire
from vlib.core import Failure

PROP = "C10"
RULE = (
    "a case is (entry point, method, URL/path, header list, header container, body kind, [second request]) run on the "
    "in-memory network. (a) single-position splice: every symbol of the hostile alphabet {CR, LF, CRLF, NUL, DEL, SP, "
    "HTAB, ':', e-acute, euro, '%0d%0a', '%', a complete embedded request, CRLF+header} inserted at every position of "
    "each field of a 6-field template, for each entry point (distinct by construction); (b) Hypothesis: several splices "
    "into random fields, auto-header names given/absent/SKIP_HEADER, bytes header names, all body kinds; (c) HTTP/2: "
    "every header name/value of <= 3 symbols over a 14-symbol alphabet through HTTP2Connection.putheader. Non-trivial "
    "= some caller string contains a hostile character (anything outside [A-Za-z0-9/?=&._-])."
)
ASSUMPTIONS = [
    "vlib/reqwire.py reads the written stream structurally (CRLF lines, blank line, framing); a caller-requested odd header name or "
    "obs-fold inside a value is not an injection, an additional line / request / byte is",
    "the request target is checked metamorphically (RFC 3986 characters and valid escapes only, same decoded bytes as the requested "
    "path and query, no fragment) rather than against a re-implementation of the encoder",
    "server always answers 200, so every exception comes from validation",
]
EXHAUSTIVE = {"quick": False, "thorough": False}

SKIP = "@@SKIP@@"
HOSTILE = ["\r", "\n", "\r\n", "\x00", "\x7f", " ", "\t", ":", "é", "€", "%0d%0a", "%", "\r\n\r\nGET /x HTTP/1.1\r\nHost: e\r\n\r\n", "\r\nX-Injected: 1", "\r\n\tfold", "\n fold", "#", "?"]
SAFE = set("abcdefghijklmnopqrstuvwxyzABCDEFGHIJKLMNOPQRSTUVWXYZ0123456789/?=&._-")
ENTRIES = ["conn", "pool", "pool-abs", "pm"]
TEMPLATE = {"method": "POST", "path": "/a/b", "query": "x=1", "fragment": "frag", "hname": "X-A", "hvalue": "v1"}
AUTO = {"host": "Host", "accept-encoding": "Accept-Encoding", "user-agent": "User-Agent"}
NOBODY_METHODS = {"GET", "HEAD", "DELETE", "TRACE", "OPTIONS", "CONNECT"}


def _scale(n):
    return max(1, int(n * float(os.environ.get("VERIF_SCALE", "1"))))


class Srv(fakenet.Endpoint):
    """Answers 200 to anything that looks complete; parsing for the oracle is done on sock.tx."""

    def on_send(self, sock, data):
        sock.tx += data
        msgs, left, err = reqwire.parse_stream(bytes(sock.tx))
        done = sock.state.get("answered", 0)
        for _ in msgs[done:]:
            sock.rx.append(fakenet.response_bytes(200, body=b"ok"))
        sock.state["answered"] = len(msgs)


def _url_of(req):
    u = req["path"]
    if req.get("query") is not None:
        u += "?" + req["query"]
    if req.get("fragment") is not None:
        u += "#" + req["fragment"]
    return u


def _build_headers(req):
    from urllib3 import HTTPHeaderDict
    from urllib3.util import SKIP_HEADER

    pairs = []
    for name, value in req["headers"]:
        v = SKIP_HEADER if value == SKIP else value
        n = name.encode("latin-1") if req.get("name_bytes") else name
        pairs.append((n, v))
    lowers = [n.lower() for n, _ in req["headers"]]
    if req.get("container") != "hd" and len(set(lowers)) != len(lowers):
        raise core.InvalidCase  # case-colliding keys in a plain mapping are documented as undefined
    if req.get("container") == "hd":
        if req.get("name_bytes"):
            raise core.InvalidCase
        h = HTTPHeaderDict()
        for n, v in pairs:
            h.add(n, v)
        return h
    return dict(pairs)


def _expected_caller_lines(req):
    """[(name_bytes, value_bytes)] the caller asked for, as header lines."""
    out = []
    if req.get("container") == "hd":
        first_name = {}
        for name, value in req["headers"]:
            first_name.setdefault(name.lower(), name)
            out.append((first_name[name.lower()], value))
    else:
        d = {}
        for name, value in req["headers"]:
            d[name] = value
        out = list(d.items())
    return out


def do_request(entry, req, pool_or_conn):
    method = req["method"]
    url = _url_of(req)
    headers = _build_headers(req)
    body = reqwire.make_body(req.get("body"))
    kw = {}
    if req.get("chunked"):
        kw["chunked"] = True
    if entry == "conn":
        pool_or_conn.request(method, url, body=body, headers=headers, **kw)
        r = pool_or_conn.getresponse()
        r.read()
        return
    if entry == "pool":
        pool_or_conn.urlopen(method, url, body=body, headers=headers, retries=False, **kw)
    elif entry == "pool-abs":
        pool_or_conn.urlopen(method, "http://h.test" + url, body=body, headers=headers, retries=False, **kw)
    elif entry == "pm":
        pool_or_conn.request(method, "http://h.test" + url, body=body, headers=headers, retries=False, **kw)
    else:
        raise core.InvalidCase


def check_message(entry, req, msg: reqwire.Msg, ua: bytes) -> list[Failure]:
    fails = []
    sig = {"entry": entry}
    # ---- request line
    parts = msg.request_line.split(b" ")
    method_b = (req["method"].upper() if entry == "pm" else req["method"]).encode("latin-1", "replace")
    if len(parts) != 3 or parts[0] != method_b or parts[2] != b"HTTP/1.1":
        fails.append(Failure("request-line", {**sig, "what": "shape"}, f"request line {msg.request_line!r} for method {req['method']!r} url {_url_of(req)!r}"))
        return fails
    target = parts[1].decode("latin-1")
    nofrag = _url_of(req).split("#", 1)[0]
    raw_path, qsep, raw_query = nofrag.partition("?")
    if not qsep:
        raw_query = None
    if entry == "conn":
        want = _url_of(req)
        if target != want:
            fails.append(Failure("request-line", {**sig, "what": "target"}, f"target {target!r}, requested {want!r}"))
    else:
        t = target
        if entry == "pool-abs":
            if not t.startswith("http://h.test"):
                fails.append(Failure("request-line", {**sig, "what": "abs-prefix"}, f"target {target!r}"))
                return fails
            t = t[len("http://h.test") :]
        if "#" in t:
            fails.append(Failure("request-line", {**sig, "what": "fragment"}, f"target {target!r} carries a fragment"))
        tp, sep, tq = t.partition("?")
        if not refurl.only_chars_and_upper_escapes(tp, refurl.PATH_OK) or (sep and not refurl.only_chars_and_upper_escapes(tq, refurl.QUERY_OK)):
            fails.append(Failure("request-line", {**sig, "what": "chars"}, f"target {target!r} has characters outside RFC 3986 / broken escapes"))
        else:
            segs = raw_path.split("/")
            dots = "." in segs or ".." in segs
            if not (dots and entry in ("pool-abs", "pm")):
                want_p = refurl.literal_or_decoded(raw_path)
                if entry in ("pm", "pool-abs") and want_p == b"":
                    want_p = b"/" if (entry == "pm" or tp) else b""
                if refurl.pct_decode_bytes(tp) != want_p:
                    fails.append(Failure("request-line", {**sig, "what": "path-meaning"}, f"target path {tp!r} does not mean the requested {raw_path!r}"))
            if raw_query is None:
                if sep:
                    fails.append(Failure("request-line", {**sig, "what": "query-invented"}, f"target {target!r} has a query, none requested"))
            elif not sep:
                fails.append(Failure("request-line", {**sig, "what": "query-dropped"}, f"target {target!r} lost the query {raw_query!r}"))
            elif refurl.pct_decode_bytes(tq) != refurl.literal_or_decoded(raw_query):
                fails.append(Failure("request-line", {**sig, "what": "query-meaning"}, f"target query {tq!r} does not mean the requested {raw_query!r}"))
    # ---- header lines
    caller = _expected_caller_lines(req)
    lower = {n.lower() for n, _ in caller}
    want_lines = []
    for n, v in caller:
        if v == SKIP:
            continue
        want_lines.append(n.encode("latin-1") + b": " + v.encode("latin-1"))
    if "host" not in lower:
        want_lines.append(b"Host: h.test")
    if "accept-encoding" not in lower:
        want_lines.append(b"Accept-Encoding: identity")
    if "user-agent" not in lower:
        want_lines.append(b"User-Agent: " + ua)
    body_spec = req.get("body")
    payload = reqwire.body_bytes(body_spec)
    if req.get("chunked") or (body_spec is not None and body_spec["k"] not in ("bytes", "str", "bytearray", "memoryview", "array")):
        want_lines.append(b"Transfer-Encoding: chunked")
        want_framing = "chunked"
    elif body_spec is None:
        if req["method"].upper() in NOBODY_METHODS:
            want_framing = "none"
        else:
            want_lines.append(b"Content-Length: 0")
            want_framing = "content-length"
    else:
        want_lines.append(b"Content-Length: %d" % len(payload))
        want_framing = "content-length"
    got = sorted(msg.header_lines)
    if got != sorted(want_lines):
        extra = [x for x in got if x not in want_lines]
        missing = [x for x in want_lines if x not in got]
        auto = any(x.split(b":")[0].strip().lower() in (b"host", b"accept-encoding", b"user-agent") for x in extra + missing)
        fails.append(Failure("header-lines", {**sig, "what": "auto" if auto else "caller"}, f"header lines differ: extra {extra!r} missing {missing!r} (requested {req['headers']!r})"))
    if msg.framing != want_framing and not fails:
        fails.append(Failure("framing", sig, f"framing {msg.framing}, expected {want_framing}"))
    if msg.body != payload:
        fails.append(Failure("body", sig, f"payload {msg.body[:60]!r}, requested {payload[:60]!r}"))
    return fails


def check_h1(case, stats=None) -> list[Failure]:
    import urllib3
    from urllib3.connection import HTTPConnection, _get_default_user_agent

    entry = case["entry"]
    reqs = case["reqs"]
    ua = _get_default_user_agent().encode()
    fails: list[Failure] = []
    srv = Srv()
    with fakenet.Net(srv) as net:
        if entry == "conn":
            obj = HTTPConnection("h.test", 80)
        elif entry in ("pool", "pool-abs"):
            obj = urllib3.HTTPConnectionPool("h.test", 80, maxsize=1)
        else:
            obj = urllib3.PoolManager()
        try:
            for i, req in enumerate(reqs):
                before = {s.sid: len(s.tx) for s in net.sockets}
                err = None
                try:
                    if entry == "conn" and i > 0:
                        obj.close()
                        obj = HTTPConnection("h.test", 80)  # a connection object is not reused after a failed call
                    do_request(entry, req, obj)
                except core.InvalidCase:
                    raise
                except BaseException as e:  # noqa: BLE001 - rejection is allowed, but only before any write
                    err = e
                written = b"".join(bytes(s.tx[before.get(s.sid, 0) :]) for s in net.sockets)
                sig = {"entry": entry, "step": i if len(reqs) > 1 else 0}
                if stats is not None:
                    stats["requests_rejected" if err is not None else "requests_written"] += 1
                    if err is not None:
                        stats["rejected:" + type(err).__name__] += 1
                if err is not None:
                    if written:
                        fails.append(Failure("reject-before-write", {**sig, "exc": type(err).__name__}, f"{type(err).__name__}: {err} - but {len(written)} bytes were already written: {written[:200]!r} (request {req!r})"))
                    if entry == "conn":
                        obj.close()
                    continue
                msgs, left, perr = reqwire.parse_stream(written)
                if perr is not None or left or len(msgs) != 1:
                    fails.append(Failure("exactly-one-request", sig, f"written bytes are not exactly one request: {len(msgs)} message(s), leftover {left[:80]!r}, error {perr}; stream {written[:300]!r} (request {req!r})"))
                    continue
                for f in check_message(entry, req, msgs[0], ua):
                    f.sig["step"] = sig["step"]
                    fails.append(f)
        finally:
            try:
                if entry == "pm":
                    obj.clear()
                else:
                    obj.close()
            except Exception:  # noqa: BLE001
                pass
    return fails


# ---------------------------------------------------------------- HTTP/2 header validity

H2_ALPHA = ["a", "Z", "-", "_", ":", " ", "\t", "\r", "\n", "\x00", "é", "(", "1", "~"]
TOKEN = set("!#$%&'*+-.^_`|~0123456789abcdefghijklmnopqrstuvwxyzABCDEFGHIJKLMNOPQRSTUVWXYZ")


def h2_ref(name: str, value: str) -> bool:
    if not name or any(ch not in TOKEN for ch in name):
        return False
    if any(ch in value for ch in "\x00\r\n"):
        return False
    if value[:1] in (" ", "\t") or value[-1:] in (" ", "\t"):
        return False
    return True


def check_h2(name: str, value: str, as_bytes: bool) -> list[Failure]:
    from urllib3.http2.connection import HTTP2Connection

    conn = HTTP2Connection("h.test", 443)
    try:
        try:
            n = name.encode("utf-8") if as_bytes else name
            v = value.encode("utf-8") if as_bytes else value
            conn.putheader(n, v)
            accepted = True
        except ValueError:
            accepted = False
        except BaseException as e:  # noqa: BLE001
            return [Failure("h2-validity", {"what": "crash", "exc": type(e).__name__}, f"putheader({name!r}, {value!r}): {type(e).__name__}: {e}")]
        want = h2_ref(name, value)
        if accepted and not want:
            return [Failure("h2-validity", {"what": "accepted-invalid", "part": "name" if not all(ch in TOKEN for ch in name) or not name else "value"}, f"HTTP/2 putheader accepted name={name!r} value={value!r}")]
        if want and not accepted:
            return [Failure("h2-validity", {"what": "rejected-valid"}, f"HTTP/2 putheader rejected name={name!r} value={value!r}")]
        if accepted:
            got = conn._headers[-1:]
            if got != [(name.lower().encode(), value.encode())]:
                return [Failure("h2-validity", {"what": "stored"}, f"stored {got!r} for ({name!r}, {value!r})")]
    finally:
        pass
    return []


def check_case(case) -> list[Failure]:
    k = case.get("kind")
    if k == "h1":
        return check_h1(case)
    if k == "h2":
        return check_h2(case["name"], case["value"], bool(case.get("bytes")))
    raise core.InvalidCase


def nontrivial(case):
    if case["kind"] == "h2":
        return any(ch not in SAFE for ch in case["name"] + case["value"])
    for r in case["reqs"]:
        strs = [r["method"], r["path"], r.get("query") or "", r.get("fragment") or ""] + [x for h in r["headers"] for x in h if x != SKIP]
        if any(ch not in SAFE for s in strs for ch in s):
            return True
    return False


def _classes(case):
    out = {"entry:" + case["entry"]}
    for r in case["reqs"]:
        for fld, s in (("method", r["method"]), ("path", r["path"]), ("query", r.get("query") or ""), ("fragment", r.get("fragment") or "")):
            if any(ch not in SAFE for ch in s):
                out.add("hostile:" + fld)
        for n, v in r["headers"]:
            if any(ch not in SAFE for ch in n):
                out.add("hostile:hname")
            if v == SKIP:
                out.add("skip-header")
            elif any(ch not in SAFE for ch in v):
                out.add("hostile:hvalue")
            if n.lower() in AUTO:
                out.add("auto-supplied")
        if r.get("body") is not None:
            out.add("body:" + r["body"]["k"])
        if r.get("name_bytes"):
            out.add("bytes-names")
    if len(case["reqs"]) > 1:
        out.add("two-requests")
    return sorted(out)


# ---------------------------------------------------------------- generators


def _req_from_template(t, body=None):
    return {"method": t["method"], "path": t["path"], "query": t["query"], "fragment": t["fragment"], "headers": [[t["hname"], t["hvalue"]]], "container": "dict", "body": body}


def splice_cases():
    for entry in ENTRIES:
        for fld, base in TEMPLATE.items():
            for sym in HOSTILE:
                for pos in range(len(base) + 1):
                    if fld == "path" and pos == 0 and entry != "conn":
                        continue  # a path that does not start with '/' is not a path for these entry points
                    t = dict(TEMPLATE)
                    t[fld] = base[:pos] + sym + base[pos:]
                    yield {"kind": "h1", "entry": entry, "reqs": [_req_from_template(t, {"k": "bytes", "v": "pay\r\nload"})]}


def _hyp_h1():
    from hypothesis import strategies as st

    hostile = st.sampled_from(HOSTILE)
    base_names = ["X-A", "Cookie", "Host", "host", "User-Agent", "USER-AGENT", "Accept-Encoding", "accept-encoding", "X Y", "X-é", "A"]
    base_vals = ["v1", "a b", "", "é", "x, y", "identity", "h.test", "evil.test"]
    bodies = st.one_of(
        st.none(),
        st.sampled_from([
            {"k": "bytes", "v": "abc"}, {"k": "bytes", "v": ""}, {"k": "str", "v": "hé€"}, {"k": "bytesio", "v": "file-data", "off": 0},
            {"k": "list", "v": [{"t": "b", "v": "ab"}, {"t": "b", "v": ""}, {"t": "s", "v": "cé"}]}, {"k": "gen", "v": [{"t": "b", "v": "xyz"}]},
            {"k": "bytes", "v": "GET /smuggled HTTP/1.1\r\nHost: e\r\n\r\n"}, {"k": "bytearray", "v": "ba"}, {"k": "stringio", "v": "teéxt"},
        ]),
    )

    def spliced(base, k):
        return st.tuples(base, st.lists(st.tuples(st.integers(0, 12), hostile), min_size=0, max_size=k)).map(_apply)

    def _apply(t):
        s, sp = t
        for pos, sym in sp:
            i = min(pos, len(s))
            s = s[:i] + sym + s[i:]
        return s

    method = spliced(st.sampled_from(["GET", "POST", "PUT", "HEAD", "DELETE", "FOO", "get", "PATCH"]), 1)
    path = spliced(st.sampled_from(["/", "/a/b", "/a/../b", "/%41%zz", "/a b", "/é", "", "/a/./b/", "//x"]), 2)
    query = st.one_of(st.none(), spliced(st.sampled_from(["x=1", "", "a=%20&b=é", "q=%zz"]), 1))
    frag = st.one_of(st.none(), spliced(st.sampled_from(["f", ""]), 1))
    hdr = st.one_of(
        st.tuples(spliced(st.sampled_from(base_names), 1), spliced(st.sampled_from(base_vals), 1)).map(list),
        st.tuples(st.sampled_from(["Host", "host", "User-Agent", "Accept-Encoding", "ACCEPT-ENCODING", "X-A"]), st.just(SKIP)).map(list),
    )
    # a tuple mapped to a dict (not fixed_dictionaries: with this many keys Hypothesis' fuzz_one_input rejects every buffer)
    keys = ("method", "path", "query", "fragment", "headers", "container", "body", "chunked", "name_bytes")
    req = st.tuples(method, path, query, frag, st.lists(hdr, max_size=3), st.sampled_from(["dict", "dict", "hd"]), bodies, st.booleans(), st.sampled_from([False, False, False, True])).map(lambda t: dict(zip(keys, t)))

    def fix(r):
        if r["container"] == "hd":
            r["name_bytes"] = False
        if r["container"] != "hd":
            seen = set()
            hs = []
            for n, v in r["headers"]:
                if n.lower() not in seen:
                    seen.add(n.lower())
                    hs.append([n, v])
            r["headers"] = hs
        if r["path"] == "" or not r["path"].startswith("/"):
            r["path"] = "/" + r["path"]
        return r

    req = req.map(fix)
    return st.builds(lambda e, rs: {"kind": "h1", "entry": e, "reqs": rs}, st.sampled_from(ENTRIES), st.lists(req, min_size=1, max_size=2))


def shards(tier, seed):
    out = []
    allc = sum(1 for _ in splice_cases())
    for a, b in core.split_range(allc, 16):
        out.append({"part": "splice", "lo": a, "hi": b})
    n = _scale(24000 if tier == "quick" else 800000)
    nsh = 16 if tier == "quick" else 64
    for i in range(nsh):
        out.append({"part": "random", "n": n // nsh, "seed": core.derive_seed(seed, "r", i)})
    L = 2 if tier == "quick" else 3
    out.append({"part": "h2", "L": L})
    from vlib import fuzz

    out += fuzz.shards("C10", tier, seed, quick=(2, 2000), thorough=(16, 60000))
    return out


def fuzz_strategy(which):
    return _hyp_h1(), (lambda c: c)


def run_shard(spec):
    col = core.Collector()
    if spec["part"] == "atheris":
        import sys

        from vlib import fuzz

        fuzz.run_shard(col, sys.modules[__name__], spec)
        return col
    part = spec["part"]
    if part == "splice":
        for i, case in enumerate(splice_cases()):
            if spec["lo"] <= i < spec["hi"]:
                col.case(case, nontrivial(case), _classes(case), check_h1(case, col.notes), distinct_by_construction=True)
    elif part == "random":

        def body(case):
            try:
                fails = check_h1(case, col.notes)
            except core.InvalidCase:
                col.note("invalid_generated")
                return
            col.case(case, nontrivial(case), _classes(case), fails)

        core.hyp_run(_hyp_h1(), spec["n"], spec["seed"], body)
    else:
        L = spec["L"]
        strs = ["".join(t) for n in range(0, L + 1) for t in itertools.product(H2_ALPHA, repeat=n)]
        short = ["".join(t) for n in range(0, 3) for t in itertools.product(H2_ALPHA, repeat=n)]
        for name in strs:
            for value in (short if L > 2 else strs):
                for as_bytes in (False, True):
                    case = {"kind": "h2", "name": name, "value": value, "bytes": as_bytes}
                    fails = check_h2(name, value, as_bytes)
                    if fails or len(col.samples.get("h2", [])) < 1:
                        col.case(case, nontrivial(case), ["h2"], fails, distinct_by_construction=True)
                    else:
                        col.evaluations += 1
                        col.nontrivial_counted += 1 if nontrivial(case) else 0
                        col.classes["h2"] += 1
    return col


def presets():
    t = dict(TEMPLATE)
    return [
        {"kind": "h1", "entry": "pool", "reqs": [_req_from_template({**t, "hvalue": "v\r\nX-Injected: 1"})]},
        {"kind": "h1", "entry": "pm", "reqs": [_req_from_template({**t, "path": "/a b\r\nX: y"})]},
        {"kind": "h1", "entry": "conn", "reqs": [_req_from_template({**t, "method": "GET /admin HTTP/1.1\r\nX: "})]},
        {"kind": "h1", "entry": "pool", "reqs": [{"method": "GET", "path": "/", "query": None, "fragment": None, "headers": [["Host", SKIP], ["User-Agent", SKIP], ["Accept-Encoding", SKIP]], "container": "dict", "body": None}]},
        {"kind": "h1", "entry": "pool-abs", "reqs": [{"method": "GET", "path": "/p", "query": "q", "fragment": "frag", "headers": [], "container": "dict", "body": None}]},
    ]


def min_nontrivial(tier):
    return 10000
