"""C09 - proxied traffic follows the documented routing and never leaks outside it."""
from __future__ import annotations

import itertools
import os
import re

from vlib import core, fakenet, nulltls, world
from vlib.core import Failure

PROP = "C09"
RULE = (
    "a case is (proxy scheme http|https, destination scheme http|https, use_forwarding_for_https, proxy certificate ok | "
    "untrusted | wrong name, origin certificate ok | untrusted | wrong name, TLS contexts separate | one shared object, each with or without proxy_assert_hostname, CONNECT reply per attempt 200 | 403 | 407 | 502 | "
    "garbage | EOF, proxy_headers none | Proxy-Authorization | + custom, request headers, destination host name | IPv4 | "
    "[IPv6], port default | odd, retries False | default, a sequence of 1-3 requests with the server closing the connection "
    "after chosen responses, optionally a first hop that redirects from an http URL to the https destination). Two "
    "observers: what the PROXY parsed (CONNECT or absolute-form requests, with the TLS layers established before) and "
    "what the ORIGIN parsed inside a tunnel. Non-trivial = a tunnel was used, or a refusal / verification failure "
    "happened, or a closed tunnel was followed by another request."
)
ASSUMPTIONS = [
    "vlib/world.py + vlib/nulltls.py (marker handshake): the proxy sees plaintext and knows where each TLS layer starts and which name it asked for",
    "use_forwarding_for_https is documented for HTTPS proxies only: with an http proxy an https destination is always tunnelled",
    "certificate verification is emulated from flags on the peer identity with the reference matcher (real TLS is C07's subject)",
]
EXHAUSTIVE = {"quick": False, "thorough": False}

DESTS = [["c.test", None], ["c.test", 8443], ["10.1.2.3", None], ["[2001:db8::5]", 8443], ["C.Test", None]]
PROXY_HEADERS = [None, {"Proxy-Authorization": "Basic cHJveHk6c2VjcmV0"}, {"Proxy-Authorization": "Basic cHJveHk6c2VjcmV0", "X-Proxy-Session": "s1"}]
CONNECT_REPLIES = [200, 403, 407, 502, "garbage", "eof"]
CERTS = ["ok", "untrusted", "wrongname"]


def _scale(n):
    return max(1, int(n * float(os.environ.get("VERIF_SCALE", "1"))))


def _validate(case):
    if case.get("kind") != "proxy" or case.get("pscheme") not in ("http", "https") or case.get("dscheme") not in ("http", "https") or not isinstance(case.get("fwd"), bool):
        raise core.InvalidCase
    if case.get("pcert") not in CERTS or case.get("ocert") not in CERTS or case.get("dest") not in DESTS or case.get("ph") not in (0, 1, 2) or case.get("retries") not in (False, None):
        raise core.InvalidCase
    if not isinstance(case.get("connects"), list) or len(case["connects"]) > 6 or any(c not in CONNECT_REPLIES for c in case["connects"]):
        raise core.InvalidCase
    if not isinstance(case.get("nreq"), int) or not (1 <= case["nreq"] <= 3) or not isinstance(case.get("close_after"), list) or any(x not in (0, 1, 2) for x in case["close_after"]):
        raise core.InvalidCase
    if not isinstance(case.get("via_redirect"), bool) or not isinstance(case.get("req_headers"), bool):
        raise core.InvalidCase


def _ident(kind, host):
    is_ip = bool(re.fullmatch(r"[0-9.]+|\[?[0-9a-fA-F:]+\]?", host))
    name = world.hostkey(host)
    if kind == "ok":
        return nulltls.Identity([("IP Address" if is_ip else "DNS", name)], label="ok " + name)
    if kind == "untrusted":
        return nulltls.Identity([("IP Address" if is_ip else "DNS", name)], trusted=False, label="untrusted " + name)
    return nulltls.Identity([("DNS", "other.invalid")], label="wrongname " + name)


def run_case(case) -> list[Failure]:
    import urllib3
    from urllib3 import exceptions as ue

    _validate(case)
    ps, ds, fwd = case["pscheme"], case["dscheme"], case["fwd"]
    dhost, dport = case["dest"]
    port = dport or (80 if ds == "http" else 443)
    nulltls.reset()
    replies = list(case["connects"])
    state = {"served": 0}

    def handler(w, entry):
        i = state["served"]
        state["served"] += 1
        if entry["target"].endswith("/redir") or "/redir" in entry["target"]:
            return {"status": 302, "headers": [("Location", f"{ds}://{dhost}" + (f":{dport}" if dport else "") + "/x0")], "body_len": 2}
        close = i in case["close_after"]
        return {"status": 200, "body_len": 20, "then": "eof" if close else None}

    used: list = []

    def connect_policy(w, sock, target, entry):
        r = replies.pop(0) if replies else 200
        used.append(r)
        if r == "garbage":
            return {"o": "garbage"}
        if r == "eof":
            return {"o": "eof"}
        return {"status": r, "keep": False}

    w = world.World(handler=handler, connect_policy=connect_policy)
    w.add_proxy(ps, "proxy.test", 3128, identity=_ident(case["pcert"], "proxy.test") if ps == "https" else None)
    w.add_origin(ds, dhost, port, identity=_ident(case["ocert"], dhost) if ds == "https" else None)
    w.add_origin("http", "start.test", 80)
    octx, pctx = nulltls.NullTLSContext("origin"), nulltls.NullTLSContext("proxy")
    cm = case.get("ctxmode", "separate")
    if cm not in CTXMODES:
        raise core.InvalidCase
    if cm.startswith("shared"):
        pctx = octx  # one context object for the proxy leg and for the destination inside the tunnel
    ph = PROXY_HEADERS[case["ph"]]
    fails: list[Failure] = []
    tunnel_expected = ds == "https" and not (ps == "https" and fwd)
    sig = {"pscheme": ps, "dscheme": ds, "fwd": fwd, "tunnel": tunnel_expected}
    outcomes = []
    with fakenet.Net(w) as net:
        kw = {"proxy_headers": dict(ph)} if ph else {}
        if cm.endswith("pah"):
            kw["proxy_assert_hostname"] = "proxy.test"  # urllib3 then matches the proxy's name itself (check_hostname goes off on that context)
        if case["retries"] is False:
            kw["retries"] = False
        pm = urllib3.ProxyManager(f"{ps}://proxy.test:3128", ssl_context=octx, proxy_ssl_context=pctx, use_forwarding_for_https=fwd, **kw)
        base = f"{ds}://{dhost}" + (f":{dport}" if dport else "")
        for i in range(case["nreq"]):
            url = base + "/x%d" % i
            if i == 0 and case["via_redirect"]:
                url = "http://start.test/redir"
            hdrs = {"X-App": "1", "Authorization": "Bearer app"} if case["req_headers"] else None
            n_used = len(used)
            try:
                r = pm.request("GET", url, headers=hdrs)
                outcomes.append(("ok", r.status, used[n_used:]))
            except BaseException as e:  # noqa: BLE001
                if type(e).__name__ == "CaseTimeout":
                    raise
                e.__traceback__ = None
                outcomes.append(("err", e, used[n_used:]))
        try:
            pm.clear()
        except Exception:  # noqa: BLE001
            pass

    def brief():
        return (f"{ {k: v for k, v in case.items() if k != 'kind'} } -> proxy/origin log {[(e['route'], e['sid'], e['msg'].request_line.decode('latin-1')) for e in w.log]} "
                f"outcomes {[(o[0], o[1] if o[0] == 'ok' else type(o[1]).__name__ + ':' + str(o[1])[:80], o[2]) for o in outcomes]} violations {w.violations}")

    okey = (ds, world.hostkey(dhost), port)
    ph_names = {k.lower() for k in (ph or {})}
    # ---- R1/R2 routing, R3 proxy headers
    for e in w.log:
        names = [k.strip().lower().decode("latin-1") for k, _ in e["msg"].headers()]
        to_dest = e["route"] in ("tunnel", "direct") or (e["route"] == "forward" and e.get("origin") == okey)
        if e["route"] == "direct" and e["listener"] != ("proxy.test", 3128):
            fails.append(Failure("routing", {**sig, "what": "bypassed-proxy"}, f"a request went straight to {e['listener']}: {brief()}"))
        if e["route"] == "connect":
            tgt = e["target"].lower()
            want = f"{dhost.lower()}:{port}"
            if tgt != want:
                fails.append(Failure("connect-line", {**sig, "v6": dhost.startswith("[")}, f"CONNECT {e['target']!r}, expected {want!r}: {brief()}"))
            if not e["msg"].request_line.endswith((b" HTTP/1.1", b" HTTP/1.0")):
                fails.append(Failure("connect-line", {**sig, "what": "version"}, f"{e['msg'].request_line!r}: {brief()}"))
            if not tunnel_expected:
                fails.append(Failure("routing", {**sig, "what": "tunnel-not-expected"}, f"CONNECT although the destination must be forwarded: {brief()}"))
            if ps == "https" and not any(l["role"] == "proxy" for l in e["tls"]):
                fails.append(Failure("routing", {**sig, "what": "plaintext-to-https-proxy"}, brief()))
            missing = [n for n in ph_names if n not in names]
            if missing:
                fails.append(Failure("proxy-headers", {**sig, "what": "missing-on-connect"}, f"CONNECT lacks proxy headers {missing}: {brief()}"))
            if "authorization" in names or "x-app" in names:
                fails.append(Failure("proxy-headers", {**sig, "what": "request-headers-on-connect"}, f"the caller's request headers were sent to the proxy in CONNECT: {brief()}"))
        elif e["route"] == "tunnel":
            if not tunnel_expected:
                fails.append(Failure("routing", {**sig, "what": "tunnel-not-expected"}, brief()))
            if e["origin"] != okey:
                fails.append(Failure("routing", {**sig, "what": "tunnel-origin"}, f"tunnel request understood as {e['origin']}, expected {okey}: {brief()}"))
            inner = [l for l in e["tls"] if l["role"] == "origin-in-tunnel"]
            if len(inner) != 1:
                fails.append(Failure("tunnel-tls", {**sig, "what": "no-inner-tls"}, f"request inside the tunnel without TLS to the destination: {brief()}"))
            else:
                want_sni = world.hostkey(dhost)
                if (inner[0]["sni"] or "").lower() != want_sni:
                    fails.append(Failure("tunnel-tls", {**sig, "what": "server-name"}, f"inner TLS asked for {inner[0]['sni']!r}, destination is {want_sni!r}: {brief()}"))
                if inner[0]["verify_mode"] != 2:
                    fails.append(Failure("tunnel-tls", {**sig, "what": "not-verified"}, f"inner TLS verify_mode {inner[0]['verify_mode']}: {brief()}"))
                if case["ocert"] != "ok":
                    fails.append(Failure("tunnel-tls", {**sig, "what": "request-after-bad-origin-cert", "ocert": case["ocert"]}, f"a request was sent inside the tunnel although the origin certificate is {case['ocert']}: {brief()}"))
            if e["target"].startswith(("http://", "https://")) or not e["target"].startswith("/"):
                fails.append(Failure("target-form", {**sig, "what": "absolute-in-tunnel"}, f"target {e['target']!r} inside the tunnel: {brief()}"))
            leaked = [n for n in ph_names if n in names]
            if leaked:
                fails.append(Failure("proxy-headers", {**sig, "what": "inside-tunnel", "via_redirect": case["via_redirect"]}, f"proxy headers {leaked} were sent to the origin inside the tunnel: {brief()}"))
        elif e["route"] == "forward":
            if e.get("origin") == okey and tunnel_expected:
                fails.append(Failure("routing", {**sig, "what": "forwarded-https"}, f"https destination was forwarded in clear to the proxy without opt-in: {brief()}"))
            if not e["target"].lower().startswith(("http://", "https://")):
                fails.append(Failure("target-form", {**sig, "what": "origin-form-at-proxy"}, f"target {e['target']!r} sent to the proxy: {brief()}"))
            if ps == "https" and not any(l["role"] == "proxy" for l in e["tls"]):
                fails.append(Failure("routing", {**sig, "what": "plaintext-to-https-proxy"}, brief()))
            if case["pcert"] != "ok" and ps == "https":
                fails.append(Failure("proxy-verify", {**sig, "what": "request-after-bad-proxy-cert", "pcert": case["pcert"]}, f"a request was forwarded although the proxy certificate is {case['pcert']}: {brief()}"))
            missing = [n for n in ph_names if n not in names]
            if missing:
                fails.append(Failure("proxy-headers", {**sig, "what": "missing-on-forward"}, f"forwarded request lacks proxy headers {missing}: {brief()}"))
    if w.violations:
        fails.append(Failure("wire", {**sig, "what": w.violations[0][0]}, f"{w.violations[:2]}: {brief()}"))
    # ---- R4 refusal / verification failure => nothing sent, ProxyError/SSLError
    connects = [e for e in w.log if e["route"] == "connect"]
    tunnels = [e for e in w.log if e["route"] == "tunnel"]
    if case["pcert"] != "ok" and ps == "https":
        if connects or tunnels or [e for e in w.log if e["route"] == "forward"]:
            fails.append(Failure("proxy-verify", {**sig, "what": "bytes-after-bad-proxy-cert", "pcert": case["pcert"]}, f"HTTP bytes reached the proxy although its certificate is {case['pcert']}: {brief()}"))
    for kind, val, mine in outcomes:
        if kind == "err":
            e = val
            reason = e.reason if isinstance(e, ue.MaxRetryError) else e
            last = mine[-1] if mine else None
            if not isinstance(e, ue.HTTPError):
                fails.append(Failure("error-type", {**sig, "exc": type(e).__name__}, f"raw {type(e).__name__}: {e}: {brief()}"))
            elif case["pcert"] != "ok" and ps == "https":
                if not isinstance(reason, (ue.ProxyError, ue.SSLError)):
                    fails.append(Failure("error-type", {**sig, "exc": type(reason).__name__, "what": "proxy-verification"}, f"expected ProxyError/SSLError, got {type(reason).__name__}: {reason}: {brief()}"))
            elif tunnel_expected and last in (403, 407, 502):
                if not isinstance(reason, (ue.ProxyError, ue.SSLError)):
                    fails.append(Failure("error-type", {**sig, "exc": type(reason).__name__, "what": "refusal"}, f"CONNECT was refused with {last}, expected ProxyError/SSLError, got {type(reason).__name__}: {reason}: {brief()}"))
            elif tunnel_expected and last in ("garbage", "eof"):
                pass  # the proxy did not answer CONNECT with HTTP: any urllib3 error
            elif tunnel_expected and case["ocert"] != "ok":
                if not isinstance(reason, ue.SSLError):
                    fails.append(Failure("error-type", {**sig, "exc": type(reason).__name__, "what": "origin-verification"}, f"origin certificate is {case['ocert']}, expected SSLError, got {type(reason).__name__}: {reason}: {brief()}"))
            else:
                fails.append(Failure("call-failed", {**sig, "exc": type(reason).__name__}, f"nothing was wrong but the call failed with {type(reason).__name__}: {reason}: {brief()}"))
    # a tunnel request must be preceded, on its own socket, by a CONNECT that got 200
    n_by_sid: dict = {}
    for e in w.log:
        if e["route"] == "connect":
            n_by_sid.setdefault(e["sid"], []).append(e)
    for e in tunnels:
        if e["sid"] not in n_by_sid:
            fails.append(Failure("retunnel", {**sig, "what": "no-connect-on-socket"}, f"tunnel request on socket #{e['sid']} without a CONNECT on it: {brief()}"))
    # ---- R5 closed tunnel => new CONNECT on a new socket
    if tunnel_expected and not fails:
        sids = [e["sid"] for e in tunnels]
        served_idx = 0
        for a, b in zip(tunnels, tunnels[1:]):
            pass
        # every response that was followed by EOF must not share its socket with a later request
        order = [e for e in w.log if e["route"] in ("tunnel", "forward", "direct")]
        for i, e in enumerate(order):
            if i in case["close_after"]:
                later = [x for x in order[i + 1 :] if x["sid"] == e["sid"]]
                if later:
                    fails.append(Failure("retunnel", {**sig, "what": "reused-closed"}, f"socket #{e['sid']} was closed by the server after response {i} but carried another request: {brief()}"))
    # ---- liveness: with everything in order every request succeeds
    all_ok = (case["pcert"] == "ok" or ps == "http") and (case["ocert"] == "ok" or ds == "http") and all(c == 200 for c in case["connects"])
    if all_ok and not fails:
        bad = [o for i, o in enumerate(outcomes) if o[0] != "ok" or (o[1] != 200 and not (o[1] == 302 and i == 0 and case["via_redirect"] and case["retries"] is False))]
        if bad:
            fails.append(Failure("call-failed", {**sig, "what": "healthy-setup"}, f"healthy proxy and origin but outcomes are not all 200: {brief()}"))
    return fails


def check_case(case):
    res, timed_out = core.guarded(run_case, case)
    if timed_out:
        return [Failure("terminates", {"pscheme": case.get("pscheme")}, f"{case}: did not return")]
    return res


def nontrivial(case):
    tunnel = case["dscheme"] == "https" and not (case["pscheme"] == "https" and case["fwd"])
    return tunnel or case["pcert"] != "ok" or case["ocert"] != "ok" or any(c != 200 for c in case["connects"]) or (bool(case["close_after"]) and case["nreq"] > 1)


def classes(case):
    tunnel = case["dscheme"] == "https" and not (case["pscheme"] == "https" and case["fwd"])
    out = ["proxy:" + case["pscheme"], "dest:" + case["dscheme"], "fwd:%s" % case["fwd"], "route:" + ("tunnel" if tunnel else "forward"), "pcert:" + case["pcert"], "ocert:" + case["ocert"], "ph:%d" % case["ph"], "nreq:%d" % case["nreq"], "retries:%s" % case["retries"]]
    for c in case["connects"]:
        out.append("connect-reply:%s" % c)
    if case["close_after"]:
        out.append("server-closes")
    if case["via_redirect"]:
        out.append("via-redirect")
    if case["dest"][0].startswith("["):
        out.append("dest-v6")
    return out


def _mk(ps, ds, fwd, pcert, ocert, dest, ph, connects, nreq, close_after, via_redirect, req_headers, retries):
    return {"kind": "proxy", "pscheme": ps, "dscheme": ds, "fwd": fwd, "pcert": pcert, "ocert": ocert, "dest": dest, "ph": ph, "connects": connects, "nreq": nreq,
            "close_after": close_after, "via_redirect": via_redirect, "req_headers": req_headers, "retries": retries}


CTXMODES = ["separate", "shared", "separate-pah", "shared-pah"]


def enum_cases(tier):
    k = 0
    # https proxy + https destination with the TLS contexts shared / proxy_assert_hostname set, x certificates
    for cm in CTXMODES[1:]:
        for fwd in (False, True):
            for pcert in CERTS:
                for ocert in CERTS:
                    for dest in DESTS:
                        k += 1
                        yield dict(_mk("https", "https", fwd, pcert, ocert, dest, core.pick(k, 1, (0, 1, 2)), [], core.pick(k, 2, (1, 2)), [], False, core.pick(k, 3, (True, False)), core.pick(k, 4, (False, None))), ctxmode=cm)
    # the routing truth table x certificates x headers
    for ps, ds, fwd in itertools.product(("http", "https"), ("http", "https"), (False, True)):
        for pcert in (CERTS if ps == "https" else ["ok"]):
            for ocert in (CERTS if ds == "https" else ["ok"]):
                for ph in (0, 1, 2):
                    for dest in DESTS:
                        for retries in (False, None):
                            k += 1
                            yield _mk(ps, ds, fwd, pcert, ocert, dest, ph, [], core.pick(k, 1, (1, 2, 3)), core.pick(k, 2, ([0], [])), core.pick(k, 3, (True, False, False, False, False)), core.pick(k, 4, (True, False)), retries)
    # CONNECT replies
    for ps, fwd in itertools.product(("http", "https"), (False, True)):
        for seq in itertools.chain(itertools.product(CONNECT_REPLIES, repeat=1), itertools.product(CONNECT_REPLIES, repeat=2)):
            for retries in (False, None):
                k += 1
                if tier == "quick" and len(seq) == 2 and k % 2:
                    continue
                yield _mk(ps, "https", fwd, "ok", "ok", core.pick(k, 1, DESTS), core.pick(k, 2, (0, 1, 2)), list(seq), core.pick(k, 3, (1, 2)), [], False, core.pick(k, 4, (True, False)), retries)
    # closed tunnels between requests
    for ps in ("http", "https"):
        for close_after in ([0], [1], [0, 1], [0, 2]):
            for nreq in (2, 3):
                for dest in DESTS:
                    k += 1
                    yield _mk(ps, "https", False, "ok", "ok", dest, core.pick(k, 1, (0, 1, 2)), [], nreq, close_after, core.pick(k, 2, (True, False, False)), True, None)


def _hyp():
    from hypothesis import strategies as st

    return st.builds(
        _mk, st.sampled_from(["http", "https"]), st.sampled_from(["http", "https", "https"]), st.booleans(), st.sampled_from(["ok", "ok", "ok", "untrusted", "wrongname"]),
        st.sampled_from(["ok", "ok", "ok", "untrusted", "wrongname"]), st.sampled_from(DESTS), st.integers(0, 2), st.lists(st.sampled_from([200, 200, 200, 403, 407, 502, "garbage", "eof"]), max_size=4),
        st.integers(1, 3), st.lists(st.integers(0, 2), max_size=2, unique=True), st.booleans(), st.booleans(), st.sampled_from([False, None]),
    ).map(lambda c: dict(c, pcert="ok") if c["pscheme"] == "http" else c).map(lambda c: dict(c, ocert="ok") if c["dscheme"] == "http" else c).flatmap(
        lambda c: st.sampled_from(CTXMODES).map(lambda m: dict(c, ctxmode=m)) if c["pscheme"] == "https" else st.just(c))


def shards(tier, seed):
    total = sum(1 for _ in enum_cases(tier))
    out = [{"part": "matrix", "tier": tier, "lo": a, "hi": b} for a, b in core.split_range(total, 32 if tier == "quick" else 64)]
    n = _scale(4000 if tier == "quick" else 100000)
    nsh = 16 if tier == "quick" else 48
    for i in range(nsh):
        out.append({"part": "random", "n": n // nsh, "seed": core.derive_seed(seed, "r", i)})
    return out


def run_shard(spec):
    col = core.Collector()
    if spec["part"] == "matrix":
        for i, case in enumerate(enum_cases(spec["tier"])):
            if spec["lo"] <= i < spec["hi"]:
                col.case(case, nontrivial(case), classes(case), check_case(case), distinct_by_construction=True)
    else:

        def body(case):
            col.case(case, nontrivial(case), classes(case), check_case(case))

        core.hyp_run(_hyp(), spec["n"], spec["seed"], body)
    return col


def presets():
    return [
        _mk("http", "https", False, "ok", "ok", DESTS[3], 2, [], 2, [0], False, True, None),
        _mk("https", "https", False, "ok", "ok", DESTS[0], 1, [403], 1, [], False, True, False),
        _mk("https", "https", True, "ok", "ok", DESTS[0], 2, [], 2, [], False, True, None),
        _mk("http", "https", True, "ok", "ok", DESTS[0], 1, [], 1, [], False, True, None),
        _mk("https", "https", False, "ok", "ok", DESTS[0], 2, [], 2, [], True, True, None),
    ]


def min_nontrivial(tier):
    return 1500
