#!/bin/bash
# usage: tools/mkseedwt.sh Cxx A|B  -> creates /tmp/wt/Cxx/<v> (git worktree of /repo HEAD) and /tmp/wt/Cxx/OUT/<v>, prints the prompt for a sub-agent
prop="$1"; v="$2"
wt="/tmp/wt/$prop/$v"; out="/tmp/wt/$prop/OUT/$v"
mkdir -p "/tmp/wt/$prop/OUT/$v" /tmp/wt/tools
cp "$(dirname "$0")/run_pinned.sh" /tmp/wt/tools/run_pinned.sh
git -C /repo worktree remove --force "$wt" 2>/dev/null; rm -rf "$wt"
git -C /repo worktree add -q --detach "$wt" HEAD || exit 3
cp /repo/src/urllib3/_version.py "$wt/src/urllib3/_version.py"
/venv/bin/python - "$prop" "$wt" "$out" <<'PY'
import json, sys
prop, wt, out = sys.argv[1:4]
p = next(json.loads(l) for l in open("/verif/properties.jsonl") if json.loads(l)["id"] == prop)
print(f"""You are helping to evaluate a verification harness for the Python library urllib3 (version 2.3.0 plus a few local bug-fix commits). Your job is to write ONE realistic, subtle code change ("seeded defect") to urllib3 that breaks the semantic property quoted below, while the library still imports and its existing test suite still passes.

PROPERTY {p['id']} - {p['title']}
{p['statement']}
Scope: {p['quantifier']['text']}
Relevant files: {', '.join(p['anchors']['files'])}

Your scratch copy of the repository is the git worktree {wt} (work ONLY there; never touch /repo or /verif, and do not read anything under /verif). Run Python as: PYTHONPATH={wt}/src /venv/bin/python ...   (there is no network in this sandbox; do not try to install anything).

Requirements for the change:
1. It modifies only files under {wt}/src/urllib3/ and is small (a few lines), the kind of slip a maintainer could plausibly make in a refactor or an optimisation, not sabotage that ordinary use would expose at once.
2. It must need something SPECIFIC to manifest: a particular interleaving or ordering, a fault at a particular I/O step, a multi-step sequence of operations, an unusual-but-valid input, a particular combination of settings, or two cooperating edits that each look fine alone. Plain single requests with default settings must keep working.
3. The existing test suite must still pass with it. Check with: /tmp/wt/tools/run_pinned.sh {wt}   (takes about 2 minutes, prints 'PINNED SUITE OK' or the names of tests that broke). If it breaks tests, choose a different change.
4. Write a demonstration program {out}/demo.py: a standalone script (no pytest, no network; you may monkeypatch sockets, use socket.socketpair with threads, or fake objects) that exits 0 on the ORIGINAL code and exits non-zero (assertion failure) WITH your change, because the property above is violated. It must use only the public behaviour described by the property as its yardstick. Verify both: run it once before making the change (git -C {wt} stash or check first), and once after.
5. Save the change as a unified diff: git -C {wt} diff -- src > {out}/patch.diff
6. Write {out}/notes.md: which clause of the property breaks, what exactly is needed for the defect to manifest, and why the existing tests do not notice.

Leave the change applied in the worktree. Reply with a 5-line summary: files changed, the trigger condition, result of run_pinned.sh, demo exit code before/after.""")
PY
