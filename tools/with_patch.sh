#!/bin/bash
# usage: tools/with_patch.sh <patch.diff | -e 'python-snippet editing SRC'> -- <command...>
# Runs <command> with VERIF_REPO_SRC pointing at a scratch copy of /repo/src with the patch applied.
# The copy lives under /tmp and is removed afterwards; /repo is never touched.
set -u
patch="$(readlink -f "$1")"; shift
[ "$1" = "--" ] && shift
d="$(mktemp -d /tmp/vsrc.XXXXXX)"
mkdir -p "$d/src"
cp -r /repo/src/urllib3 "$d/src/urllib3"
find "$d" -name __pycache__ -prune -exec rm -rf {} + 2>/dev/null
if ! (cd "$d" && patch -s -p1 < "$patch"); then echo "patch failed"; rm -rf "$d"; exit 3; fi
VERIF_REPO_SRC="$d/src" "$@"
rc=$?
rm -rf "$d"
exit $rc
