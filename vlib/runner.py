"""./check entry point: shard -> collect -> classify -> shrink -> replay -> evidence."""
from __future__ import annotations

import argparse
import importlib
import json
import multiprocessing
import os
import sys
import time
import traceback

from . import core, shrink as shrinker

HERE = os.path.dirname(os.path.dirname(os.path.abspath(__file__)))
REPO_SRC = os.environ.get("VERIF_REPO_SRC", "/repo/src")
FINDINGS_FILE = os.path.join(HERE, "known_findings.json")


def _selftest() -> None:
    import urllib3

    f = os.path.realpath(urllib3.__file__)
    if not f.startswith(os.path.realpath(REPO_SRC) + os.sep):
        raise core.HarnessError(f"urllib3 imported from {f}, expected under {REPO_SRC}")


def _load(prop: str):
    return importlib.import_module(f"props.{prop.lower()}")


def _run_shard(arg):
    modname, spec = arg
    try:
        mod = importlib.import_module(modname)
        out = mod.run_shard(spec)
        if isinstance(out, core.Collector):
            out = out.out()
        out["spec"] = spec
        return out
    except BaseException:  # noqa: BLE001 - reported as harness error
        return {"error": traceback.format_exc(), "spec": spec}


def _load_findings(prop: str):
    if not os.path.exists(FINDINGS_FILE):
        return [], []
    data = json.load(open(FINDINGS_FILE))
    open_, fixed = [], []
    for e in data.get("entries", []):
        if e.get("property") != prop:
            continue
        (open_ if e.get("status") == "open" else fixed).append(e)
    return open_, fixed


def _matches(finding: dict, failure: dict) -> bool:
    m = finding.get("match", {})
    if "clause" in m:
        cl = m["clause"]
        if isinstance(cl, list):
            if failure["clause"] not in cl:
                return False
        elif failure["clause"] != cl:
            return False
    for k, v in m.get("sig", {}).items():
        got = failure["sig"].get(k, None)
        if isinstance(v, list):
            if got not in v:
                return False
        elif got != v:
            return False
    return True


def _bucket_of(failure: dict) -> str:
    return core.canon({"clause": failure["clause"], **failure["sig"]})


def _check_case_json(mod, case):
    fs = mod.check_case(case)
    return [f.to_json() if isinstance(f, core.Failure) else f for f in fs]


def _clip(case, limit=3000):
    s = core.canon(case)
    if len(s) <= limit:
        return json.loads(s)
    return {"clipped": s[:limit] + "...", "full_len": len(s)}


def main(argv=None) -> int:
    ap = argparse.ArgumentParser(prog="check")
    ap.add_argument("prop")
    ap.add_argument("--tier", default=os.environ.get("VERIF_TIER", "quick"), choices=["quick", "thorough"])
    ap.add_argument("--replay")
    ap.add_argument("--seed", type=int, default=None)
    ap.add_argument("--workers", type=int, default=int(os.environ.get("VERIF_WORKERS", "16")))
    ap.add_argument("--parts", default=os.environ.get("VERIF_PARTS", ""))
    ap.add_argument("--no-evidence", action="store_true")
    ap.add_argument("--scale", type=float, default=float(os.environ.get("VERIF_SCALE", "1")))
    args = ap.parse_args(argv)
    prop = args.prop.upper()
    seed = args.seed
    if seed is None:
        try:
            seed = int(os.environ.get("VERIF_SEED", "1"))
        except ValueError:
            seed = 1
    os.environ["VERIF_SCALE"] = str(args.scale)
    t0 = time.time()
    try:
        _selftest()
        mod = _load(prop)
        if args.replay:
            return _replay(mod, prop, args.replay)
        return _run(mod, prop, args, seed, t0)
    except core.HarnessError as e:
        print(f"HARNESS-ERROR property={prop}: {e}", file=sys.stderr)
        return 2
    except Exception:  # noqa: BLE001
        traceback.print_exc()
        print(f"HARNESS-ERROR property={prop}: unexpected exception in the runner", file=sys.stderr)
        return 2


def _replay(mod, prop: str, path: str) -> int:
    data = json.load(open(path))
    case = data["case"] if isinstance(data, dict) and "case" in data else data
    open_f, _ = _load_findings(prop)
    fails = _check_case_json(mod, case)
    new = [f for f in fails if not any(_matches(k, f) for k in open_f)]
    for f in fails:
        known = [k["id"] for k in open_f if _matches(k, f)]
        tag = f"KNOWN({known[0]})" if known else "FAIL"
        print(f"{tag} clause={f['clause']} sig={core.canon(f['sig'])} :: {f['msg']}")
    if new:
        print(f"VIOLATION property={prop} replay={path}")
        return 1
    print(f"replay of {path}: property {prop} holds on this case" + (" (known findings only)" if fails else ""))
    return 0


def _run(mod, prop: str, args, seed: int, t0: float) -> int:
    tier = args.tier
    specs = mod.shards(tier, seed)
    if args.parts:
        want = set(args.parts.split(","))
        specs = [s for s in specs if s.get("part") in want]
    if not specs:
        raise core.HarnessError("no shards to run")
    open_f, fixed_f = _load_findings(prop)

    # -- replay tier first: stored regression cases + repros of fixed findings
    preset_cases = []
    if hasattr(mod, "presets"):
        preset_cases += [("preset", c) for c in mod.presets()]
    for e in fixed_f:
        for c in e.get("repros", [e["repro"]] if "repro" in e else []):
            preset_cases.append((e["id"], c))
    corpus_dir = os.path.join(HERE, "corpus", prop)
    if os.path.isdir(corpus_dir):
        for fn in sorted(os.listdir(corpus_dir)):
            if fn.endswith(".json"):
                d = json.load(open(os.path.join(corpus_dir, fn)))
                preset_cases.append((fn, d["case"] if isinstance(d, dict) and "case" in d else d))

    failures: dict[str, list] = {}
    fail_counts: dict[str, int] = {}
    n_presets = 0
    for origin, c in preset_cases:
        n_presets += 1
        for f in _check_case_json(mod, c):
            b = _bucket_of(f)
            failures.setdefault(b, []).append({"case": c, "failure": f, "origin": origin})
            fail_counts[b] = fail_counts.get(b, 0) + 1

    # -- generated search, sharded
    modname = mod.__name__
    workers = max(1, min(args.workers, len(specs)))
    outs = []
    if workers == 1:
        outs = [_run_shard((modname, s)) for s in specs]
    else:
        ctx = multiprocessing.get_context("fork")
        with ctx.Pool(workers) as pool:
            for o in pool.imap_unordered(_run_shard, [(modname, s) for s in specs], chunksize=1):
                outs.append(o)
    errs = [o for o in outs if "error" in o]
    if errs:
        for o in errs[:3]:
            print(f"shard {o['spec']} crashed:\n{o['error']}", file=sys.stderr)
        raise core.HarnessError(f"{len(errs)} of {len(outs)} shards crashed")

    outs.sort(key=lambda o: core.canon(o["spec"]))
    evaluations = n_presets
    hashes: set[int] = set()
    counted = 0
    classes: dict[str, int] = {}
    samples: dict[str, list] = {}
    notes: dict[str, int] = {}
    extra: dict[str, object] = {}
    truncated = 0
    part_stats: dict[str, dict] = {}
    for o in outs:
        evaluations += o["evaluations"]
        hashes |= o["nontrivial_hashes"]
        counted += o["nontrivial_counted"]
        for k, v in o["classes"].items():
            classes[k] = classes.get(k, 0) + v
        for k, v in o["samples"].items():
            lst = samples.setdefault(k, [])
            if len(lst) < 1:
                lst.extend(v[:1])
        for k, v in o["notes"].items():
            notes[k] = notes.get(k, 0) + v
        for k, v in o.get("extra", {}).items():
            if isinstance(v, (int, float)) and isinstance(extra.get(k, 0), (int, float)):
                extra[k] = extra.get(k, 0) + v
            else:
                extra.setdefault(k, v)
        truncated += 1 if o["truncated"] else 0
        for b, lst in o["failures"].items():
            failures.setdefault(b, []).extend(lst)
        for b, n in o["fail_counts"].items():
            fail_counts[b] = fail_counts.get(b, 0) + n
        p = o["spec"].get("part", "main")
        ps = part_stats.setdefault(p, {"shards": 0, "evaluations": 0, "wall_s": 0.0})
        ps["shards"] += 1
        ps["evaluations"] += o["evaluations"]
        ps["wall_s"] = round(ps["wall_s"] + o["wall_s"], 2)

    # -- classify buckets
    excluded: dict[str, int] = {}
    new_buckets: dict[str, list] = {}
    seen_known: set[str] = set()
    for b, lst in failures.items():
        f0 = lst[0]["failure"]
        ks = [k for k in open_f if _matches(k, f0)]
        if ks:
            excluded[ks[0]["id"]] = excluded.get(ks[0]["id"], 0) + fail_counts.get(b, len(lst))
            seen_known.add(ks[0]["id"])
        else:
            new_buckets[b] = lst

    # -- known findings: run each stored repro, print KNOWN-FINDING while it still fails
    for k in open_f:
        still = False
        for c in k.get("repros", [k["repro"]] if "repro" in k else []):
            try:
                if any(_matches(k, f) for f in _check_case_json(mod, c)):
                    still = True
            except core.InvalidCase:
                pass
        if still or k["id"] in seen_known:
            print(f"KNOWN-FINDING: property={prop} {k['id']}: {k['what']}")
            excluded.setdefault(k["id"], 0)

    # -- shrink one representative per new bucket, write replay files, report
    violations = 0
    shrink_budget = 15.0 if tier == "quick" else 90.0
    os.environ["VERIF_CASE_LIMIT_S"] = "5"
    core.CASE_LIMIT_S = min(core.CASE_LIMIT_S, 5.0)  # shrinking: a hang is recognised quickly
    os.makedirs(os.path.join(HERE, "replays", prop), exist_ok=True)
    for i, (b, lst) in enumerate(sorted(new_buckets.items(), key=lambda kv: kv[0])):
        lst.sort(key=lambda e: len(core.canon(e["case"])))
        rep = lst[0]
        case = rep["case"]
        info = {}
        if i < 6 and not getattr(mod, "NO_SHRINK", False) and (not hasattr(mod, "shrinkable") or mod.shrinkable(case)):
            def still_fails(c, _b=b):
                return any(_bucket_of(f) == _b for f in _check_case_json(mod, c))

            try:
                small, info = shrinker.shrink(case, still_fails, budget_s=shrink_budget)
                fs = [f for f in _check_case_json(mod, small) if _bucket_of(f) == b]
                if fs:
                    case, rep = small, {"case": small, "failure": fs[0]}
            except Exception:  # noqa: BLE001 - keep the unshrunk case
                info = {"shrink_error": traceback.format_exc(limit=2)}
        path = os.path.join(HERE, "replays", prop, f"{core.h64(b):016x}.json")
        with open(path, "w") as fh:
            json.dump(
                {
                    "property": prop,
                    "case": case,
                    "failure": rep["failure"],
                    "occurrences": fail_counts.get(b, len(lst)),
                    "shrink": info,
                    "seed": seed,
                    "tier": tier,
                },
                fh,
                indent=1,
                default=core._default,
            )
        violations += 1
        print(f"VIOLATION property={prop} replay={path}")
        print(f"  clause={rep['failure']['clause']} sig={core.canon(rep['failure']['sig'])}")
        print(f"  {rep['failure']['msg'][:600]}")

    wall = time.time() - t0
    sample_list = []
    for k in sorted(samples):
        for c in samples[k][:1]:
            sample_list.append({"class": k, "case": _clip(c)})
    sample_list = sample_list[:16]
    if not sample_list:
        sample_list = [{"class": "_none", "case": None}]
    cov = {
        "evaluations": evaluations,
        "distinct_nontrivial": len(hashes) + counted,
        "rule": getattr(mod, "RULE", ""),
        "samples": sample_list,
        "class_histogram": dict(sorted(classes.items())),
        "excluded_known": excluded,
        "parts": part_stats,
        "notes": dict(sorted(notes.items())),
        "preset_cases": n_presets,
        "shards": len(outs),
        "shards_truncated_by_budget": truncated,
        "exhaustive": bool(getattr(mod, "EXHAUSTIVE", {}).get(tier, False)),
    }
    cov.update(extra)
    ev = {
        "property_id": prop,
        "tier": tier,
        "seed": seed,
        "level": "exploration",
        "coverage": cov,
        "assumptions": list(getattr(mod, "ASSUMPTIONS", [])),
        "wall_s": round(wall, 2),
        "violations": violations,
    }
    if not args.no_evidence and not args.parts:
        os.makedirs(os.path.join(HERE, "evidence"), exist_ok=True)
        with open(os.path.join(HERE, "evidence", f"{prop}.json"), "w") as fh:
            json.dump(ev, fh, indent=1, default=core._default)
    print(
        f"{prop} {tier} seed={seed}: evaluations={evaluations} distinct_nontrivial={cov['distinct_nontrivial']} "
        f"violations={violations} known={excluded} wall={wall:.1f}s"
    )
    if not args.parts and hasattr(mod, "min_nontrivial") and cov["distinct_nontrivial"] < mod.min_nontrivial(tier) * args.scale:
        raise core.HarnessError(
            f"generator produced only {cov['distinct_nontrivial']} non-trivial cases "
            f"(< {mod.min_nontrivial(tier)}): fix the generator"
        )
    return 1 if violations else 0


if __name__ == "__main__":
    sys.exit(main())
