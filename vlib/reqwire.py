"""Structural reading of the client->server byte stream (used by C10, C11, C15, C05, C06, C09).

Unlike wire.parse_one_request (token-strict), this reader is *structural*: it only relies on
CRLF line ends, the blank line, and the framing headers - so that a header line the caller
legitimately asked for (odd characters in the name, obs-fold in the value) is reported as is,
while any *additional* line, request or byte is visible as such.
"""
from __future__ import annotations

import typing


class Msg(typing.NamedTuple):
    request_line: bytes
    header_lines: list  # physical header lines; continuation lines merged with b"\r\n"
    framing: str  # none | content-length | chunked
    body: bytes  # de-framed payload
    chunks: list  # chunk payloads as sent
    raw: bytes

    def headers(self) -> list:
        out = []
        for ln in self.header_lines:
            name, sep, value = ln.partition(b":")
            out.append((name, value[1:] if value.startswith(b" ") else value) if sep else (ln, None))
        return out

    def get(self, name: str) -> list:
        n = name.lower().encode()
        return [v for k, v in self.headers() if k.strip().lower() == n]


def parse_stream(data: bytes) -> tuple[list, bytes, str | None]:
    """-> (messages, leftover, error). error is None when the stream is a whole number of messages."""
    pos = 0
    out: list = []
    while pos < len(data):
        end = data.find(b"\r\n\r\n", pos)
        if end < 0:
            return out, data[pos:], "head not terminated by an empty line"
        head = data[pos:end]
        lines = head.split(b"\r\n")
        merged: list = []
        for ln in lines[1:]:
            if ln[:1] in (b" ", b"\t") and merged:
                merged[-1] = merged[-1] + b"\r\n" + ln
            else:
                merged.append(ln)
        bpos = end + 4
        cl = None
        te = False
        for ln in merged:
            name, sep, value = ln.partition(b":")
            nm = name.strip().lower()
            if nm == b"content-length":
                v = value.strip()
                if not v.isdigit():
                    return out, data[pos:], f"content-length value {v!r}"
                if cl is not None and cl != int(v):
                    return out, data[pos:], "conflicting content-length"
                cl = int(v)
            elif nm == b"transfer-encoding":
                if value.strip().lower().split(b",")[-1].strip() == b"chunked":
                    te = True
        chunks: list = []
        if te:
            body = bytearray()
            while True:
                e = data.find(b"\r\n", bpos)
                if e < 0:
                    return out, data[pos:], "chunk size line not terminated"
                size_line = data[bpos:e]
                hexpart = size_line.split(b";")[0]
                if not hexpart or any(c not in b"0123456789abcdefABCDEF" for c in hexpart):
                    return out, data[pos:], f"bad chunk size {size_line[:30]!r}"
                n = int(hexpart, 16)
                bpos = e + 2
                if n == 0:
                    if data[bpos : bpos + 2] != b"\r\n":
                        return out, data[pos:], "last chunk not followed by an empty line"
                    bpos += 2
                    break
                if len(data) < bpos + n + 2 or data[bpos + n : bpos + n + 2] != b"\r\n":
                    return out, data[pos:], "chunk data not followed by CRLF"
                chunks.append(data[bpos : bpos + n])
                body += data[bpos : bpos + n]
                bpos += n + 2
            framing, payload = "chunked", bytes(body)
        elif cl is not None:
            if len(data) < bpos + cl:
                return out, data[pos:], f"body shorter ({len(data) - bpos}) than content-length {cl}"
            framing, payload = "content-length", data[bpos : bpos + cl]
            bpos += cl
        else:
            framing, payload = "none", b""
        out.append(Msg(lines[0], merged, framing, payload, chunks, data[pos:bpos]))
        pos = bpos
    return out, b"", None


def body_bytes(spec) -> bytes:
    """Reference bytes of a JSON body spec (see make_body)."""
    if spec is None:
        return b""
    k = spec["k"]
    if k in ("bytes", "bytearray", "memoryview"):
        return spec["v"].encode("latin-1")
    if k == "str":
        return spec["v"].encode("utf-8")
    if k in ("bytesio", "file", "notell", "badtell", "noseek", "shortread"):
        return spec["v"].encode("latin-1")[spec.get("off", 0) :]
    if k in ("stringio", "textfile"):
        return spec["v"][spec.get("off", 0) :].encode("utf-8")
    if k in ("list", "gen", "tuple"):
        return b"".join((c["v"].encode("utf-8") if c["t"] == "s" else c["v"].encode("latin-1")) for c in spec["v"])
    if k == "array":
        import array

        return array.array(spec["code"], spec["v"]).tobytes()
    raise ValueError(k)


class _NoTell:
    def __init__(self, data):
        self._d, self._p = data, 0

    def read(self, n=-1):
        if n is None or n < 0:
            n = len(self._d) - self._p
        out = self._d[self._p : self._p + n]
        self._p += len(out)
        return out


class _BadTell(_NoTell):
    def tell(self):
        raise OSError("tell failed")

    def seek(self, pos, whence=0):
        self._p = pos
        return pos


class _ShortRead(_NoTell):
    """A raw stream: read(n) may return fewer than n bytes although more is to come (legal for io.RawIOBase)."""

    def read(self, n=-1):
        if n is None or n < 0:
            n = len(self._d) - self._p
        n = min(n, 3)
        out = self._d[self._p : self._p + n]
        self._p += len(out)
        return out

    def tell(self):
        return self._p

    def seek(self, pos, whence=0):
        self._p = pos
        return pos


class _NoSeek(_NoTell):
    def tell(self):
        return self._p


def make_body(spec, workdir: str | None = None):
    """Build the Python body object described by a JSON spec."""
    import array
    import io
    import os
    import tempfile

    if spec is None:
        return None
    k = spec["k"]
    if k == "bytes":
        return spec["v"].encode("latin-1")
    if k == "bytearray":
        return bytearray(spec["v"].encode("latin-1"))
    if k == "memoryview":
        return memoryview(spec["v"].encode("latin-1"))
    if k == "str":
        return spec["v"]
    if k == "bytesio":
        f = io.BytesIO(spec["v"].encode("latin-1"))
        f.seek(spec.get("off", 0))
        return f
    if k == "stringio":
        f = io.StringIO(spec["v"])
        f.seek(spec.get("off", 0))
        return f
    if k in ("file", "textfile"):
        fd, path = tempfile.mkstemp(dir=workdir)
        with os.fdopen(fd, "wb") as fh:
            fh.write(spec["v"].encode("latin-1") if k == "file" else spec["v"].encode("utf-8"))
        f = open(path, "rb") if k == "file" else open(path, "r", encoding="utf-8", newline="")
        os.unlink(path)
        if k == "file":
            f.seek(spec.get("off", 0))
        else:
            f.read(spec.get("off", 0))
        return f
    if k == "notell":
        f = _NoTell(spec["v"].encode("latin-1"))
        f._p = spec.get("off", 0)
        return f
    if k == "badtell":
        f = _BadTell(spec["v"].encode("latin-1"))
        f._p = spec.get("off", 0)
        return f
    if k == "shortread":
        f = _ShortRead(spec["v"].encode("latin-1"))
        f._p = spec.get("off", 0)
        return f
    if k == "noseek":
        f = _NoSeek(spec["v"].encode("latin-1"))
        f._p = spec.get("off", 0)
        return f
    if k in ("list", "tuple", "gen"):
        items = [(c["v"] if c["t"] == "s" else c["v"].encode("latin-1")) for c in spec["v"]]
        if k == "list":
            return items
        if k == "tuple":
            return tuple(items)
        return (x for x in items)
    if k == "array":
        return array.array(spec["code"], spec["v"])
    raise ValueError(k)
