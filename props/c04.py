"""C04 - retries respect every budget, spare non-idempotent requests, and terminate."""
from __future__ import annotations

import copy
import itertools
import os

from vlib import core, fakenet, servers
from vlib.core import Failure

PROP = "C04"
RULE = (
    "a case is (pool kind direct | forwarding proxy | CONNECT tunnel (null TLS) | CONNECT tunnel through an https proxy (TLS in TLS), placement of the policy request | pool/manager level, "
    "policy = False | int | None | Retry(total, connect, read, status, other, allowed_methods, status_forcelist, "
    "raise_on_status, respect_retry_after_header, backoff_factor, backoff_max, backoff_jitter), method, per-attempt outcome "
    "script of <= 5 outcomes from {connect refused, connect timeout, name resolution error, read timeout, reset, EOF, "
    "garbage status line, short body, reset while sending, a non-connection OSError while the reply is awaited, TLS record error, 200, 500, 503, 413/429/503/500 with "
    "Retry-After}). The real pool is run against the scripted in-memory server with a virtual clock; the oracle counts "
    "the attempts the SERVER saw (not Retry's own counters). Non-trivial = at least one retry happened, or a retry was "
    "refused for a budget or method reason (the call ended on a retryable outcome)."
)
ASSUMPTIONS = [
    "ground-truth category of an outcome: fault before the connection exists -> connect; fault after the first request byte may have left -> read; TLS record error -> other; response with a status that the policy names -> status",
    "Retry-After on a forcelisted status outside 413/429/503 may be slept for (docstring of Retry.sleep); the 413/429/503 rule constrains when Retry-After TRIGGERS a retry",
    "redirects are C05's; scripts contain no 3xx",
    "vlib/fakenet.py virtual clock records every time.sleep() of urllib3.util.retry",
]
EXHAUSTIVE = {"quick": False, "thorough": True}

FAULTS = ["refused", "ctimeout", "gaierror", "rtimeout", "rreset", "eof", "garbage", "short_eof", "sreset", "rssl", "tlsfail", "connect_refused", "rother"]
CATEGORY = {"refused": "connect", "ctimeout": "connect", "gaierror": "connect", "rtimeout": "read", "rreset": "read", "eof": "read", "garbage": "read", "short_eof": "read", "sreset": "read", "rssl": "other", "tlsfail": "other", "connect_refused": "other", "rother": "read"}
RESPS = [{"s": 200}, {"s": 500}, {"s": 503}, {"s": 429, "ra": "2"}, {"s": 503, "ra": "7"}, {"s": 413, "ra": "1"}, {"s": 500, "ra": "3"}, {"s": 429, "ra": "0"}, {"s": 404, "ra": "5"},
         # Retry-After as an HTTP-date: 4 s after the reply, and a date that has already passed
         {"s": 503, "ra": "@date+4"}, {"s": 429, "ra": "@date-30"}]
OUTCOMES = FAULTS + RESPS
METHODS = ["GET", "POST", "PUT", "DELETE", "PATCH"]
IDEMPOTENT = {"HEAD", "GET", "PUT", "DELETE", "OPTIONS", "TRACE"}
RA_STATUSES = {413, 429, 503}


def _scale(n):
    return max(1, int(n * float(os.environ.get("VERIF_SCALE", "1"))))


def effective(spec):
    """Policy parameters implied by the documented meaning of the value given."""
    base = {"total": 10, "connect": None, "read": None, "status": None, "other": None, "am": "default", "fl": [], "ros": True, "rra": True, "bf": 0, "bm": 120, "jit": 0.0}
    t = spec["t"]
    if t == "none":
        return dict(base, total=3)
    if t == "false":
        return dict(base, total=False)
    if t == "int":
        return dict(base, total=spec["v"])
    d = dict(base)
    d.update({k: spec[k] for k in spec if k != "t"})
    return d


def make_retries(spec):
    from urllib3.util.retry import Retry

    t = spec["t"]
    if t == "none":
        return None
    if t == "false":
        return False
    if t == "int":
        return spec["v"]
    kw = {}
    for k in ("total", "connect", "read", "status", "other"):
        if k in spec:
            kw[k] = spec[k]
    am = spec.get("am", "default")
    if am == "none":
        kw["allowed_methods"] = None
    elif am == "post":
        kw["allowed_methods"] = frozenset(["POST"])
    if spec.get("fl"):
        kw["status_forcelist"] = list(spec["fl"])
    for k, name in (("ros", "raise_on_status"), ("rra", "respect_retry_after_header"), ("bf", "backoff_factor"), ("bm", "backoff_max"), ("jit", "backoff_jitter")):
        if k in spec:
            kw[name] = spec[k]
    return Retry(**kw)


class _Clock(fakenet.VClock):
    def __init__(self, srv_ref):
        super().__init__()
        self.srv_ref = srv_ref
        self.sleeps_at = []

    def sleep(self, x):
        self.sleeps_at.append((len(self.srv_ref[0].attempts), x))
        super().sleep(x)


def _outcome_to_script(o):
    if isinstance(o, str):
        return {"o": o}
    hdrs = [["Retry-After", o["ra"]]] if "ra" in o else []
    return servers.ok(o["s"], body_len=5, headers=hdrs)


def _validate(case):
    if case.get("kind") != "retry" or case.get("pool") not in ("direct", "fwd", "tunnel", "tunnel-tls") or case.get("place") not in ("request", "pool"):
        raise core.InvalidCase
    if case.get("method") not in METHODS or not isinstance(case.get("script"), list) or len(case["script"]) > 6:
        raise core.InvalidCase
    for o in case["script"]:
        if isinstance(o, str):
            if o not in FAULTS:
                raise core.InvalidCase
        elif not (isinstance(o, dict) and o.get("s") in (200, 500, 503, 429, 413, 404) and o.get("ra", "1") in ("0", "1", "2", "3", "5", "7", "@date+4", "@date-30")):
            raise core.InvalidCase
    sp = case.get("retries")
    if not isinstance(sp, dict) or sp.get("t") not in ("none", "false", "int", "retry"):
        raise core.InvalidCase
    if sp["t"] == "int" and not (isinstance(sp.get("v"), int) and not isinstance(sp.get("v"), bool) and 0 <= sp["v"] <= 6):
        raise core.InvalidCase
    if sp["t"] == "retry":
        for k in ("total", "connect", "read"):
            v = sp.get(k)
            if not (v is None or v is False or (isinstance(v, int) and not isinstance(v, bool) and 0 <= v <= 6)):
                raise core.InvalidCase
        for k in ("status", "other"):
            v = sp.get(k)
            if not (v is None or (isinstance(v, int) and not isinstance(v, bool) and 0 <= v <= 6)):
                raise core.InvalidCase
        if sp.get("am", "default") not in ("default", "none", "post") or any(x not in (500, 503) for x in sp.get("fl", [])):
            raise core.InvalidCase
        if sp.get("bf", 0) not in (0, 0.5, 100) or sp.get("bm", 120) not in (0, 0.5, 1, 120) or sp.get("jit", 0.0) not in (0.0, 0.3):
            raise core.InvalidCase
        if not all(isinstance(sp.get(k, True), bool) for k in ("ros", "rra")):
            raise core.InvalidCase


def wrapped_types(kind, proxied, pool=None):
    """Names of urllib3 exception classes that are the documented wrapping of this fault."""
    from urllib3 import exceptions as ue

    base = {
        "refused": (ue.NewConnectionError,), "ctimeout": (ue.ConnectTimeoutError,), "gaierror": (ue.NameResolutionError,),
        "rtimeout": (ue.ReadTimeoutError,), "rreset": (ue.ProtocolError,), "eof": (ue.ProtocolError,), "garbage": (ue.ProtocolError,),
        "short_eof": (ue.ProtocolError,), "sreset": (ue.ProtocolError,), "rssl": (ue.SSLError,),
        "tlsfail": (ue.SSLError,), "connect_refused": (ue.ProxyError,), "rother": (ue.ProtocolError,),
    }[kind]
    if proxied and kind in ("refused", "ctimeout", "gaierror"):
        return (ue.ProxyError,)  # could not reach the proxy
    if pool == "tunnel-tls" and kind == "tlsfail":
        return (ue.ProxyError,)  # the script's TLS failure hits the first handshake, which is the one with the https proxy
    return base


def run_case(case) -> list[Failure]:
    import urllib3
    from urllib3 import exceptions as ue

    _validate(case)
    spec = case["retries"]
    eff = effective(spec)
    method = case["method"]
    proxied = case["pool"] in ("fwd", "tunnel", "tunnel-tls")
    script = [_outcome_to_script(o) for o in case["script"]]
    ref = [None]
    clock = _Clock(ref)
    srv = servers.ScriptServer(script, clock=clock)
    ref[0] = srv
    fails: list[Failure] = []
    sig0 = {"pool": case["pool"]}
    retries = make_retries(spec)
    snap_before = copy.deepcopy(vars(retries)) if hasattr(retries, "__dict__") else None
    result = exc = None
    with fakenet.Net(srv, clock=clock):
        kw_pool = {"retries": retries} if case["place"] == "pool" else {}
        kw_req = {"retries": retries} if case["place"] == "request" else {}
        body = b"x=1" if method in ("POST", "PUT", "PATCH") else None
        if case["pool"] in ("tunnel", "tunnel-tls"):
            from vlib import nulltls

            nulltls.reset()
            if case["pool"] == "tunnel-tls":  # https proxy: TLS to the proxy, CONNECT, TLS in TLS through urllib3's SSLTransport
                obj = urllib3.ProxyManager("https://proxy.test:3128", ssl_context=nulltls.NullTLSContext("c04"), proxy_ssl_context=nulltls.NullTLSContext("c04-proxy"), **kw_pool)
            else:
                obj = urllib3.ProxyManager("http://proxy.test:3128", ssl_context=nulltls.NullTLSContext("c04"), **kw_pool)
            url = "https://a.test/x"
        elif proxied:
            obj = urllib3.ProxyManager("http://proxy.test:3128", **kw_pool)
            url = "http://a.test/x"
        else:
            obj = urllib3.HTTPConnectionPool("a.test", 80, maxsize=1, **kw_pool)
            url = "/x"
        try:
            result = obj.urlopen(method, url, body=body, redirect=False, **kw_req)
        except BaseException as e:  # noqa: BLE001
            if type(e).__name__ == "CaseTimeout":
                raise
            exc = e
        finally:
            try:
                obj.clear() if proxied else obj.close()
            except Exception:  # noqa: BLE001
                pass
    atts = srv.attempts
    n = len(atts)
    kinds = [a["outcome"]["o"] if a["outcome"]["o"] != "resp" else a["outcome"] for a in atts]

    def cat(i):
        o = atts[i]["outcome"]
        if o["o"] != "resp":
            return CATEGORY[o["o"]]
        return "status"

    def brief():
        return f"{ {k: v for k, v in case.items() if k != 'kind'} } -> {n} attempts {[k if isinstance(k, str) else k.get('status') for k in kinds]}, result {('status %d' % result.status) if result is not None else type(exc).__name__ + ': ' + str(exc)[:120]}"

    if n == 0:
        return [Failure("no-attempt", sig0, brief())]
    allowed = eff["am"] == "none" or (eff["am"] == "default" and method in IDEMPOTENT) or (eff["am"] == "post" and method == "POST")
    prevsig = lambda i: {**sig0, "prev": atts[i]["outcome"]["o"] if atts[i]["outcome"]["o"] != "resp" else "resp", "proxy": proxied}  # noqa: E731
    # ---- A1 total budget
    tot = eff["total"]
    if tot is False:
        if n != 1:
            fails.append(Failure("retries-false", prevsig(0), f"retries disabled but {brief()}"))
    elif tot is not None and n > 1 + tot:
        fails.append(Failure("budget", {**prevsig(n - 2), "which": "total"}, f"total={tot} but {brief()}"))
    # ---- A2 per-category budgets
    for c in ("connect", "read", "status", "other"):
        b = eff[c]
        if b is None:
            continue
        idx = [i for i in range(n - 1) if cat(i) == c]
        limit = 0 if b is False else b
        if len(idx) > limit:
            # attribute the excess: if it disappears when the proxy-misclassified faults (known finding) are left out,
            # name one of those as the cause, otherwise the first attempt beyond the budget
            kf = [i for i in idx if proxied and atts[i]["outcome"]["o"] in ("rreset", "eof", "sreset")]
            rest = [i for i in idx if i not in kf]
            culprit = kf[0] if kf and len(rest) <= limit else (rest[limit] if len(rest) > limit else idx[limit])
            fails.append(Failure("budget", {**prevsig(culprit), "which": c}, f"{c}={b} but {len(idx)} attempts were made after a {c}-category outcome: {brief()}"))
    # ---- A3 non-idempotent methods / A7 responses
    for i in range(n - 1):
        o = atts[i]["outcome"]
        c = cat(i)
        if not allowed and c in ("read", "status"):
            fails.append(Failure("non-idempotent-resent", prevsig(i), f"{method} is outside allowed_methods but was sent again after attempt {i} ({o['o']}, category {c}): {brief()}"))
        if o["o"] == "resp":
            s = o["status"]
            has_ra = any(h[0].lower() == "retry-after" for h in o.get("headers", []))
            why_ok = (s in eff["fl"] and allowed) or (s in RA_STATUSES and has_ra and allowed and eff["rra"] and bool(eff["total"]))
            if not why_ok:
                fails.append(Failure("status-retried", {**sig0, "status": s, "ra": has_ra}, f"status {s} (Retry-After {'present' if has_ra else 'absent'}) is not retryable under this policy but another attempt followed: {brief()}"))
    # ---- A6 sleeps
    for at, x in clock.sleeps_at:
        ok_backoff = 0 <= x <= eff["bm"]
        ra_val, ra_date = None, False
        if 1 <= at <= n and atts[at - 1]["outcome"]["o"] == "resp":
            for h in atts[at - 1]["outcome"].get("headers", []):
                if h[0].lower() == "retry-after":
                    ra_val = float(h[1]) if not h[1].startswith("@date") else float(h[1][5:])
                    ra_date = h[1].startswith("@date")
        ok_ra = eff["rra"] and ra_val is not None and (x == ra_val if not ra_date else (ra_val > 0 and ra_val - 1 <= x <= ra_val))
        if not (ok_backoff or ok_ra):
            fails.append(Failure("sleep", {**sig0, "ra": ra_val is not None}, f"slept {x} s after attempt {at - 1} (backoff_max {eff['bm']}, Retry-After {ra_val}, respected {eff['rra']}): {brief()}"))
    # ---- A5 the caller's Retry object is never mutated
    if snap_before is not None and vars(retries) != snap_before:
        diff = {k: (snap_before.get(k), v) for k, v in vars(retries).items() if snap_before.get(k) != v}
        fails.append(Failure("mutated", sig0, f"the caller's Retry object changed {diff}: {brief()}"))
    # ---- A4 / A8 how it ended
    last = atts[-1]["outcome"]
    if last["o"] == "resp":
        s = last["status"]
        if exc is None:
            if result.status != s:
                fails.append(Failure("ending", {**sig0, "what": "wrong-response"}, f"last server response was {s}: {brief()}"))
        elif isinstance(exc, ue.MaxRetryError):
            if not isinstance(exc.reason, ue.ResponseError):
                fails.append(Failure("ending", {**sig0, "what": "reason-type"}, f"MaxRetryError.reason is {type(exc.reason).__name__}, last outcome was status {s}: {brief()}"))
            elif not eff["ros"]:
                fails.append(Failure("ending", {**sig0, "what": "raised-despite-ros-false"}, f"raise_on_status=False but MaxRetryError was raised: {brief()}"))
        else:
            fails.append(Failure("ending", {**sig0, "what": "exception-after-response", "exc": type(exc).__name__}, brief()))
    else:
        k = last["o"]
        want = wrapped_types(k, proxied, case["pool"])
        if exc is None:
            fails.append(Failure("ending", {**sig0, "what": "no-error"}, f"last outcome was the fault {k} but a response came back: {brief()}"))
        elif isinstance(exc, ue.MaxRetryError):
            if tot is False:
                fails.append(Failure("retries-false", prevsig(n - 1), f"retries disabled but MaxRetryError was raised: {brief()}"))
            elif not isinstance(exc.reason, want):
                fails.append(Failure("ending", {**prevsig(n - 1), "what": "reason-type"}, f"MaxRetryError.reason is {type(exc.reason).__name__}, the last cause was {k} (expected {[w.__name__ for w in want]}): {brief()}"))
        elif not isinstance(exc, ue.HTTPError):
            fails.append(Failure("ending", {**sig0, "what": "raw-error", "exc": type(exc).__name__}, brief()))
        elif not isinstance(exc, want):
            fails.append(Failure("ending", {**prevsig(n - 1), "what": "error-type"}, f"raised {type(exc).__name__}, the cause was {k} (expected {[w.__name__ for w in want]}): {brief()}"))
    # ---- liveness with ample budgets (guards against a vacuous never-retry)
    ample = tot is not False and (tot is None or tot >= len(case["script"])) and all(eff[c] is None for c in ("connect", "read", "status", "other")) and allowed
    if ample and not fails:
        expect_n = None
        for i, o in enumerate(case["script"]):
            if isinstance(o, dict):
                has_ra = "ra" in o
                retry = (o["s"] in eff["fl"]) or (o["s"] in RA_STATUSES and has_ra and eff["rra"] and bool(tot))
                if not retry:
                    expect_n = i + 1
                    break
        if expect_n is None:
            expect_n = len(case["script"]) + 1
        if n != expect_n:
            fails.append(Failure("liveness", sig0, f"budgets are ample and every scripted fault is retryable, expected {expect_n} attempts: {brief()}"))
    return fails


def check_case(case):
    res, timed_out = core.guarded(run_case, case)
    if timed_out:
        return [Failure("terminates", {"pool": case.get("pool")}, f"{case}: the call did not return")]
    return res


def nontrivial(case):
    sc = case["script"]
    return any(isinstance(o, str) or o["s"] != 200 for o in sc[:1]) and case["retries"]["t"] != "false"


def classes(case):
    out = ["pool:" + case["pool"], "place:" + case["place"], "policy:" + case["retries"]["t"], "method:" + case["method"], "len:%d" % len(case["script"])]
    for o in case["script"]:
        out.append("o:" + (o if isinstance(o, str) else "resp%d%s" % (o["s"], "+ra" if "ra" in o else "")))
    sp = case["retries"]
    if sp["t"] == "retry":
        out.append("am:" + sp.get("am", "default"))
        for k in ("total", "connect", "read", "status", "other"):
            if sp.get(k) is False:
                out.append(k + "=False")
    return out


# --------------------------------------------------------------------------- generation

TOTALS = [None, False, 0, 1, 2, 3]
CR = [None, False, 0, 1, 2]
SO = [None, 0, 1, 2]


def enum_cases(tier):
    """Bounded-exhaustive: budget grid x method class x all outcome sequences of length <= L."""
    L = 2 if tier == "quick" else 3
    outs = FAULTS + RESPS[:6] if tier != "quick" else ["refused", "ctimeout", "rtimeout", "rreset", "eof", "garbage", "sreset", "rssl", "tlsfail", "connect_refused", "rother", {"s": 200}, {"s": 503}, {"s": 429, "ra": "2"}, {"s": 500, "ra": "3"}]
    grids = []
    for total, connect, read in itertools.product(TOTALS, CR, CR):
        grids.append({"t": "retry", "total": total, "connect": connect, "read": read})
    for total, status, other in itertools.product([None, 1, 2], SO, SO):
        if status is None and other is None:
            continue
        grids.append({"t": "retry", "total": total, "status": status, "other": other, "fl": [503]})
    for bf, bm, jit in itertools.product((0.5, 100), (0, 0.5, 1, 120), (0.0, 0.3)):
        grids.append({"t": "retry", "total": 3, "bf": bf, "bm": bm, "jit": jit, "fl": [503]})
    grids += [{"t": "false"}, {"t": "none"}, {"t": "int", "v": 0}, {"t": "int", "v": 1}, {"t": "int", "v": 2}]
    variants = [("GET", "default", "direct", "request"), ("POST", "default", "direct", "request"), ("POST", "none", "fwd", "pool"), ("PUT", "post", "direct", "pool"), ("POST", "post", "fwd", "request"),
                ("GET", "default", "tunnel", "request"), ("POST", "default", "tunnel", "pool")]
    if tier != "quick":
        variants += [("POST", "default", "tunnel-tls", "request"), ("DELETE", "default", "fwd", "request"), ("PATCH", "default", "direct", "pool"), ("GET", "none", "fwd", "pool")]
    for g in grids:
        for method, am, pool, place in variants:
            spec = dict(g)
            if spec["t"] == "retry":
                spec["am"] = am
                spec.setdefault("fl", [503])
            elif am != "default":
                continue
            for k in range(1, L + 1):
                for seq in itertools.product(outs, repeat=k):
                    if any(isinstance(o, dict) and o["s"] == 200 for o in seq[:-1]):
                        continue  # nothing follows a 200
                    if not pool.startswith("tunnel") and any(o in ("tlsfail", "connect_refused") for o in seq):
                        continue
                    yield {"kind": "retry", "pool": pool, "place": place, "retries": spec, "method": method, "script": list(seq)}


def _hyp():
    from hypothesis import strategies as st

    budget = st.sampled_from([None, None, 0, 1, 2, 3])
    crb = st.sampled_from([None, None, False, 0, 1, 2])
    retry = st.fixed_dictionaries({
        "t": st.just("retry"), "total": st.sampled_from([None, False, 0, 1, 2, 3, 5]), "connect": crb, "read": crb, "status": budget, "other": budget,
        "am": st.sampled_from(["default", "default", "none", "post"]), "fl": st.sampled_from([[], [500], [503], [500, 503]]),
        "ros": st.booleans(), "rra": st.booleans(), "bf": st.sampled_from([0, 0.5, 100]), "bm": st.sampled_from([0, 0.5, 1, 120]), "jit": st.sampled_from([0.0, 0.0, 0.3]),
    })
    spec = st.one_of(retry, retry, retry, st.just({"t": "false"}), st.just({"t": "none"}), st.builds(lambda v: {"t": "int", "v": v}, st.integers(0, 4)))
    outcome = st.one_of(st.sampled_from(FAULTS), st.sampled_from(FAULTS), st.sampled_from(RESPS))
    return st.fixed_dictionaries({
        "kind": st.just("retry"), "pool": st.sampled_from(["direct", "direct", "fwd", "tunnel", "tunnel-tls"]), "place": st.sampled_from(["request", "pool"]),
        "retries": spec, "method": st.sampled_from(METHODS), "script": st.lists(outcome, min_size=1, max_size=5),
    })


def shards(tier, seed):
    total = sum(1 for _ in enum_cases(tier))
    out = [{"part": "enum", "tier": tier, "lo": a, "hi": b} for a, b in core.split_range(total, 32 if tier == "quick" else 128)]
    n = _scale(20000 if tier == "quick" else 300000)
    nsh = 16 if tier == "quick" else 64
    for i in range(nsh):
        out.append({"part": "random", "n": n // nsh, "seed": core.derive_seed(seed, "r", i)})
    return out


def run_shard(spec):
    col = core.Collector()
    if spec["part"] == "enum":
        for i, case in enumerate(enum_cases(spec["tier"])):
            if not (spec["lo"] <= i < spec["hi"]):
                continue
            fails = check_case(case)
            nt = nontrivial(case)
            if fails or col.evaluations % 500 == 0:
                col.case(case, nt, classes(case), fails, distinct_by_construction=True)
            else:
                col.evaluations += 1
                col.nontrivial_counted += 1 if nt else 0
                for c in classes(case):
                    col.classes[c] += 1
    else:

        def body(case):
            while len(case["script"]) > 1 and any(isinstance(o, dict) and o["s"] == 200 for o in case["script"][:-1]):
                i = next(i for i, o in enumerate(case["script"]) if isinstance(o, dict) and o["s"] == 200)
                case["script"] = case["script"][: i + 1]
            col.case(case, nontrivial(case), classes(case), check_case(case))

        core.hyp_run(_hyp(), spec["n"], spec["seed"], body)
    return col


def presets():
    R = lambda **kw: dict({"t": "retry"}, **kw)  # noqa: E731
    mk = lambda pool, place, r, m, sc: {"kind": "retry", "pool": pool, "place": place, "retries": r, "method": m, "script": sc}  # noqa: E731
    return [
        mk("direct", "request", R(total=2), "GET", ["rreset", "rreset", "rreset"]),
        mk("direct", "request", R(total=5, read=0), "GET", ["rtimeout", {"s": 200}]),
        mk("direct", "request", R(total=3), "POST", ["eof", {"s": 200}]),
        mk("direct", "pool", {"t": "false"}, "GET", ["refused"]),
        mk("direct", "request", R(total=3, fl=[503], ros=False), "GET", [{"s": 503}] * 4),
        mk("fwd", "request", R(total=3), "POST", ["eof", {"s": 200}]),
        mk("direct", "request", R(total=3, bf=100, bm=1), "GET", ["rreset", "rreset", "rreset", {"s": 200}]),
    ]


def min_nontrivial(tier):
    return 5000
