"""C19 - socket waits never exceed the configured timeouts."""
from __future__ import annotations

import itertools
import os
import socket as _socket

from vlib import core, fakenet
from vlib.core import Failure

PROP = "C19"
RULE = (
    "a case is (total, connect, read) from {unset, None, 0.5, 2, 10}^3 x placement {pool Timeout, request Timeout, "
    "both (pool-level decoys), pool float, request float, request float over pool-level decoys} x connect duration d from {0, .25, .5, 1, 2, 5, 20} on a "
    "virtual clock x history {fresh connection, reused connection, second request on a new connection after a first "
    "one with its own d, the attempt re-issued after a 503 (status retry)} x server {answers, stays silent} x scheme {http, https over the identity TLS layer, https through a CONNECT tunnel of a ProxyManager}; the quick "
    "tier already enumerates this grid completely (distinct by construction), each cell with one of socket_options default / None / [] / custom. Plus the invalid-value table and the "
    "pure Timeout arithmetic grid; thorough adds Hypothesis-drawn floats (monotonicity / bound checks). Non-trivial = "
    "total is set together with connect or read, or d > 0, or it is a second request."
)
ASSUMPTIONS = [
    "what the in-memory socket is told (settimeout before connect, timeout in force at the first response recv) is what a real socket would enforce",
    "time passes only while connecting (virtual clock advanced by the scripted connect duration) or while a recv waits",
    "through a CONNECT tunnel the connect phase is the connection to the proxy (the proxy answers CONNECT at once); the read timeout in force while the CONNECT reply is awaited is not asserted",
]
EXHAUSTIVE = {"quick": True, "thorough": True}

VALS = ["unset", None, 0.5, 2, 10]
DS = [0, 0.25, 0.5, 1, 2, 5, 20]
PLACEMENTS = ["pool", "request", "both", "pool-float", "request-float", "both-float"]
HISTORIES = ["fresh", "reused", "second-fresh", "status-retry"]
DECOY = (0.123, 0.111, 0.117)
INVALID = [0, -1, -0.0, True, False, "x", "1", [], {}, (), -3.5, 0.0, b"1"]
EPS = 1e-6


def _scale(n):
    return max(1, int(n * float(os.environ.get("VERIF_SCALE", "1"))))


def _num(v):
    return None if v in ("unset", None) else v


def expected(total, connect, read, d):
    t, c, r = _num(total), _num(connect), _num(read)
    cands = [x for x in (c, t) if x is not None]
    exp_connect = min(cands) if cands else None
    connect_times_out = exp_connect is not None and d > exp_connect
    cands = []
    if r is not None:
        cands.append(r)
    if t is not None:
        cands.append(max(0.0, t - d))
    exp_read = min(cands) if cands else None
    return exp_connect, connect_times_out, exp_read


class Srv(fakenet.Endpoint):
    def __init__(self, net_clock, ds, silent, close_first=False, busy_first=False):
        super().__init__()
        self.clock = net_clock
        self.ds = list(ds)
        self.silent = silent
        self.close_first = close_first
        self.busy_first = busy_first  # the first attempt of the judged request is answered 503 (keep-alive): the client re-issues it

    def on_connect(self, sock, sa):
        super().on_connect(sock, sa)
        d = self.ds.pop(0) if self.ds else 0
        if sock.timeout is not None and d > sock.timeout:
            self.clock.advance(sock.timeout)
            raise _socket.timeout("timed out")
        self.clock.advance(d)

    def handle(self, sock, req):
        if req.method == b"CONNECT":
            # acting as the proxy: the tunnel is established at once (time passes only while connecting)
            sock.state["tunnel_host"] = req.target.rsplit(b":", 1)[0].decode("latin-1")
            self.requests.pop()
            self.reply(sock, b"HTTP/1.1 200 Connection established\r\n\r\n")
            return
        n = len(self.requests)
        last = req.target.endswith(b"/last")
        if self.busy_first and last:
            self.busy_first = False
            self.reply(sock, fakenet.response_bytes(503, body=b"", keep_alive=True))
            return
        if self.silent and last:
            sock.rx.append(fakenet.NEVER)
            return
        keep = not (self.close_first and n == 1)
        self.reply(sock, fakenet.response_bytes(200, body=b"ok", keep_alive=keep))
        if not keep:
            sock.rx.append(fakenet.EOF)


def _mk_timeout(total, connect, read):
    from urllib3.util.timeout import Timeout

    kw = {}
    if total != "unset":
        kw["total"] = total
    if connect != "unset":
        kw["connect"] = connect
    if read != "unset":
        kw["read"] = read
    return Timeout(**kw)


def run_http(case) -> list[Failure]:
    import urllib3
    from urllib3.exceptions import ConnectTimeoutError, ReadTimeoutError
    from urllib3.util.timeout import Timeout

    total, connect, read = case["total"], case["connect"], case["read"]
    placement, d, history, silent = case["placement"], case["d"], case["history"], case["silent"]
    scheme = case.get("scheme", "http")
    if placement.endswith("float"):
        if total != "unset" or connect != read or connect == "unset":
            raise core.InvalidCase
    fails: list[Failure] = []
    clock = fakenet.VClock(1024.0)
    d_first = case.get("d_first", 1)
    ds = [d] if history == "fresh" else ([d_first] if history in ("reused", "status-retry") else [d_first, d])
    srv = Srv(clock, ds, silent, close_first=(history == "second-fresh"), busy_first=(history == "status-retry"))
    # status-retry: the judged wait is that of the attempt re-issued (on the same connection) after a 503
    rt = urllib3.Retry(total=1, status_forcelist=[503], backoff_factor=0, raise_on_status=False) if history == "status-retry" else False
    sig_base = {"placement": placement, "history": history, "scheme": scheme}
    with fakenet.Net(srv, clock) as net:
        pool_kw = {}
        req_kw = {}
        # other connection keywords must not matter for the timeouts: socket_options default | None | [] | a custom list
        so = case.get("sockopts", "default")
        if so not in ("default", "none", "empty", "custom"):
            raise core.InvalidCase
        if so != "default":
            pool_kw["socket_options"] = {"none": None, "empty": [], "custom": [(_socket.IPPROTO_TCP, _socket.TCP_NODELAY, 1)]}[so]
        real = _mk_timeout(total, connect, read) if not placement.endswith("float") else connect
        if placement in ("pool", "pool-float"):
            pool_kw["timeout"] = real
        elif placement in ("request", "request-float"):
            req_kw["timeout"] = real
        else:
            pool_kw["timeout"] = Timeout(total=DECOY[0], connect=DECOY[1], read=DECOY[2])
            req_kw["timeout"] = real
        mgr = None
        if scheme == "https-tunnel":
            # the same clauses through a CONNECT tunnel: the connect phase is the connection to the proxy
            from vlib import nulltls

            mgr = urllib3.ProxyManager("http://proxy.test:3128", retries=rt, ssl_context=nulltls.NullTLSContext("c19"), **pool_kw)
            pool = mgr.connection_from_url("https://h.test/")
        elif scheme == "https":
            from vlib import nulltls

            ctx = nulltls.NullTLSContext("c19")
            pool = urllib3.HTTPSConnectionPool("h.test", 443, retries=rt, ssl_context=ctx, **pool_kw)
        else:
            pool = urllib3.HTTPConnectionPool("h.test", 80, retries=rt, **pool_kw)
        snapshot = repr(pool.timeout)
        try:
            if history not in ("fresh", "status-retry"):
                # the first request: same placement, its own connect duration, always answered
                try:
                    r1 = pool.urlopen("GET", "/first", **req_kw)
                    r1.data
                except Exception as e:  # noqa: BLE001
                    # d_first is chosen to lie within the connect timeout in effect and the server answers at once
                    fails.append(Failure("spurious-timeout", {**sig_base, "kind": "first-request", "exc": type(e).__name__}, f"{case}: the first request (connect takes {d_first}s) failed with {type(e).__name__}: {e}"))
                    return fails
            n_before = len(net.events)
            socks_before = len(net.sockets)
            outcome = None
            try:
                r = pool.urlopen("GET", "/last", **req_kw)
                r.data
                outcome = "ok"
            except ConnectTimeoutError:
                outcome = "connect-timeout"
            except ReadTimeoutError:
                outcome = "read-timeout"
            except BaseException as e:  # noqa: BLE001
                outcome = "exc:" + type(e).__name__
                if type(e).__name__ == "MaxRetryError" and isinstance(getattr(e, "reason", None), ReadTimeoutError):
                    outcome = "read-timeout"  # (status-retry history: the budget was spent on the 503)
                if scheme == "https-tunnel" and type(e).__name__ == "ProxyError" and isinstance(getattr(e, "original_error", None), ConnectTimeoutError):
                    outcome = "connect-timeout"  # a timeout while connecting to the proxy is reported as ProxyError(ConnectTimeoutError)
            evs = net.events[n_before:]
            if history == "status-retry":
                d_eff, connected = 0, False
                if outcome == "connect-timeout" or len(net.sockets) != socks_before + 1 or srv.busy_first:
                    raise core.InvalidCase  # harness expectation: one connection (d_first fits), the 503 was served on it
            elif history == "reused":
                d_eff, connected = 0, False
                if len(net.sockets) != socks_before:
                    raise core.InvalidCase  # harness expectation: the connection is reused
            else:
                d_eff, connected = d, True
            exp_connect, c_to, exp_read = expected(total, connect, read, d_eff)
            if placement.endswith("float"):
                exp_connect, c_to, exp_read = expected("unset", connect, read, d_eff)
            # --- connect phase
            if connected:
                conn_evs = [e for e in evs if e[0] == "connect"]
                if len(conn_evs) != 1:
                    fails.append(Failure("harness-shape", {**sig_base, "what": "connects"}, f"{case}: {len(conn_evs)} connects in the last request"))
                    return fails
                got = conn_evs[0][3]
                if not _same(got, exp_connect):
                    fails.append(Failure("connect-timeout-value", {**sig_base, "kind": _kind(got, exp_connect)}, f"{case}: connect phase used timeout {got!r}, expected min(connect,total) = {exp_connect!r}"))
                if c_to:
                    if outcome != "connect-timeout":
                        fails.append(Failure("connect-timeout-raised", sig_base, f"{case}: connect took {d}s > {exp_connect}s but outcome was {outcome}"))
                    return fails
            if outcome == "connect-timeout":
                fails.append(Failure("connect-timeout-raised", {**sig_base, "kind": "spurious"}, f"{case}: ConnectTimeoutError although connect took {d_eff}s within {exp_connect!r}"))
                return fails
            # --- response wait
            sid = None
            for e in evs:
                if e[0] == "send":
                    sid = e[1]
            if sid is None:
                fails.append(Failure("harness-shape", {**sig_base, "what": "no-send"}, f"{case}: nothing was sent; outcome {outcome}"))
                return fails
            # the response wait = the first read after the LAST write of the request (with https the null-TLS
            # handshake writes and reads one marker record before the request is sent)
            last_send = max(i for i, e in enumerate(evs) if e[0] == "send" and e[1] == sid)
            wait_to = "none"
            for e in evs[last_send + 1 :]:
                if e[1] == sid and e[0] in ("recv", "recv-wait", "recv-eof", "recv-exc"):
                    wait_to = e[-1] if e[0] in ("recv", "recv-wait") else "n/a"
                    break
            if exp_read is not None and exp_read <= 0:
                if outcome != "read-timeout":
                    fails.append(Failure("zero-read-budget", {**sig_base, "kind": "no-error"}, f"{case}: remaining read budget is 0 but outcome was {outcome}"))
                if wait_to != "none":
                    fails.append(Failure("zero-read-budget", {**sig_base, "kind": "waited"}, f"{case}: remaining read budget is 0 but the socket was read (timeout in force {wait_to!r})"))
                return fails
            if wait_to == "none":
                fails.append(Failure("harness-shape", {**sig_base, "what": "no-recv"}, f"{case}: response was never read; outcome {outcome}"))
                return fails
            if wait_to != "n/a" and not _same(wait_to, exp_read):
                fails.append(Failure("read-timeout-value", {**sig_base, "kind": _kind(wait_to, exp_read)}, f"{case}: response wait used timeout {wait_to!r}, expected min(read, total - connect time) = {exp_read!r}"))
            if silent:
                if outcome != "read-timeout":
                    fails.append(Failure("read-timeout-raised", sig_base, f"{case}: the server never answered but outcome was {outcome}"))
            elif outcome != "ok":
                fails.append(Failure("spurious-timeout", sig_base, f"{case}: server answered at once but outcome was {outcome}"))
            if repr(pool.timeout) != snapshot:
                fails.append(Failure("pool-timeout-mutated", sig_base, f"{case}: pool.timeout changed from {snapshot} to {pool.timeout!r}"))
        finally:
            pool.close()
            if mgr is not None:
                mgr.clear()
    return fails


def _same(got, exp):
    if exp is None or got is None:
        return got is None and exp is None
    try:
        return abs(float(got) - float(exp)) <= EPS
    except (TypeError, ValueError):
        return False


def _kind(got, exp):
    if got is None:
        return "unbounded"
    if exp is None:
        return "bounded-unexpectedly"
    try:
        if got < 0:
            return "negative"
        return "looser" if got > exp else "tighter"
    except TypeError:
        return "type"


def run_unit(case) -> list[Failure]:
    import urllib3.util.timeout as ut

    total, connect, read, d = case["total"], case["connect"], case["read"], case["d"]
    clock = fakenet.VClock(1024.0)
    saved = ut.time
    ut.time = clock
    fails = []
    try:
        t = _mk_timeout(total, connect, read)
        before = repr(t)
        exp_connect, _, exp_read = expected(total, connect, read, d)
        from urllib3.util.timeout import Timeout

        got_c = Timeout.resolve_default_timeout(t.connect_timeout)
        if not _same(got_c, exp_connect):
            fails.append(Failure("connect-timeout-value", {"placement": "unit", "kind": _kind(got_c, exp_connect)}, f"{case}: connect_timeout {got_c!r}, expected {exp_connect!r}"))
        c = t.clone()
        c.start_connect()
        clock.advance(d)
        got_r = c.read_timeout
        if not _same(got_r, exp_read):
            fails.append(Failure("read-timeout-value", {"placement": "unit", "kind": _kind(got_r, exp_read)}, f"{case}: read_timeout {got_r!r}, expected {exp_read!r}"))
        # a second clone starts its own clock: one request never influences another
        c2 = t.clone()
        c2.start_connect()
        got_r2 = c2.read_timeout
        exp2 = expected(total, connect, read, 0)[2]
        if not _same(got_r2, exp2):
            fails.append(Failure("clock-shared", {"placement": "unit"}, f"{case}: a fresh clone reports read_timeout {got_r2!r}, expected {exp2!r}"))
        if repr(t) != before or t._start_connect is not None:
            fails.append(Failure("pool-timeout-mutated", {"placement": "unit"}, f"{case}: the original Timeout changed"))
    finally:
        ut.time = saved
    return fails


def run_invalid(case) -> list[Failure]:
    import urllib3
    from urllib3.util.timeout import Timeout

    v = case["value"]
    val = {"obj": object(), "list": [], "dict": {}, "tuple": (), "bytes": b"1"}.get(v, v) if isinstance(v, str) and v in ("obj", "list", "dict", "tuple", "bytes") else v
    slot = case["slot"]
    fails = []
    try:
        if slot in ("total", "connect", "read"):
            Timeout(**{slot: val})
        elif slot == "pool-float":
            urllib3.HTTPConnectionPool("h.test", timeout=val)
        elif slot == "from_float":
            Timeout.from_float(val)
        elif slot == "request-float":
            srv = fakenet.Endpoint()
            with fakenet.Net(srv) as net:
                p = urllib3.HTTPConnectionPool("h.test", retries=False)
                try:
                    p.urlopen("GET", "/", timeout=val)
                finally:
                    p.close()
                if net.sockets and any(s.tx for s in net.sockets):
                    fails.append(Failure("invalid-accepted", {"slot": slot, "type": type(val).__name__, "sent": True}, f"invalid timeout {val!r} at {slot}: request was sent"))
        fails.append(Failure("invalid-accepted", {"slot": slot, "type": type(val).__name__}, f"invalid timeout {val!r} accepted at {slot}"))
    except ValueError:
        pass
    except BaseException as e:  # noqa: BLE001
        fails.append(Failure("invalid-wrong-error", {"slot": slot, "exc": type(e).__name__}, f"invalid timeout {val!r} at {slot}: {type(e).__name__}: {e}"))
    return fails


def check_case(case) -> list[Failure]:
    k = case.get("kind")
    if k == "http":
        return run_http(case)
    if k == "unit":
        return run_unit(case)
    if k == "invalid":
        return run_invalid(case)
    if k == "float":
        return run_float(case)
    raise core.InvalidCase


def run_float(case) -> list[Failure]:
    """Metamorphic: results are bounded by every configured value and monotone in d."""
    import urllib3.util.timeout as ut
    from urllib3.util.timeout import Timeout

    total, connect, read, d1, d2 = case["total"], case["connect"], case["read"], case["d1"], case["d2"]
    clock = fakenet.VClock(0.0)
    saved = ut.time
    ut.time = clock
    fails = []
    try:
        t = Timeout(total=total, connect=connect, read=read)
        ct = t.connect_timeout
        for name, bound in (("connect", connect), ("total", total)):
            if bound is not None and (ct is None or ct > bound):
                fails.append(Failure("connect-timeout-value", {"placement": "float", "kind": "looser"}, f"{case}: connect_timeout {ct!r} exceeds {name}={bound!r}"))
        outs = []
        for d in (d1, d1 + d2):
            c = t.clone()
            c.start_connect()
            clock.advance(d)
            r = c.read_timeout
            outs.append(r)
            if r is not None and r < 0:
                fails.append(Failure("read-timeout-value", {"placement": "float", "kind": "negative"}, f"{case}: read_timeout {r!r}"))
            if read is not None and (r is None or r > read):
                fails.append(Failure("read-timeout-value", {"placement": "float", "kind": "looser"}, f"{case}: read_timeout {r!r} exceeds read={read!r}"))
            if total is not None and (r is None or r > max(0.0, total - d) + 1e-9 * max(1.0, abs(total), abs(d))):
                fails.append(Failure("read-timeout-value", {"placement": "float", "kind": "looser"}, f"{case}: read_timeout {r!r} exceeds total-d={total - d!r}"))
        if outs[0] is not None and outs[1] is not None and outs[1] > outs[0] + 1e-9:
            fails.append(Failure("read-timeout-value", {"placement": "float", "kind": "not-monotone"}, f"{case}: read budget grew from {outs[0]!r} to {outs[1]!r} as connecting took longer"))
    finally:
        ut.time = saved
    return fails


def nontrivial(case):
    if case["kind"] in ("invalid", "float"):
        return True
    t, c, r = _num(case["total"]), _num(case["connect"]), _num(case["read"])
    return (t is not None and (c is not None or r is not None)) or case["d"] > 0 or case.get("history") in ("reused", "second-fresh")


def hash_i(*parts) -> int:
    return core.h64(core.canon([str(p) for p in parts])) & 0xFFFFFF


def _grid(schemes):
    for scheme in schemes:
        for total, connect, read in itertools.product(VALS, repeat=3):
            for placement in PLACEMENTS:
                if placement.endswith("float") and (total != "unset" or connect != read or connect == "unset"):
                    continue
                for d in DS:
                    for history in HISTORIES:
                        for silent in (False, True):
                            # choose the first request's connect duration so that it succeeds
                            ec, _, _ = expected(total, connect, read, 0)
                            d_first = 0.25 if (ec is not None and ec <= 0.5) else (1 if (ec is None or ec > 1) else 0.25)
                            t = _num(total)
                            if t is not None and d_first >= t:
                                d_first = 0
                            yield {"kind": "http", "scheme": scheme, "total": total, "connect": connect, "read": read, "placement": placement, "d": d, "history": history, "silent": silent, "d_first": d_first, "sockopts": core.pick(len(str((total, connect, read, placement, d, history, silent))) * 7919 + hash_i(total, connect, read, placement, d, history, silent), 1, ("default", "default", "none", "empty", "custom"))}


def shards(tier, seed):
    schemes = ["http"] + (["https", "https-tunnel"] if _have_nulltls() else [])
    allc = list(_grid(schemes))
    out = []
    for a, b in core.split_range(len(allc), 32):
        out.append({"part": "grid", "lo": a, "hi": b, "schemes": schemes})
    out.append({"part": "unit"})
    out.append({"part": "invalid"})
    if tier == "thorough":
        for i in range(16):
            out.append({"part": "float", "n": _scale(20000), "seed": core.derive_seed(seed, "f", i)})
    else:
        out.append({"part": "float", "n": _scale(3000), "seed": core.derive_seed(seed, "f", 0)})
    return out


def _have_nulltls():
    try:
        from vlib import nulltls  # noqa: F401

        return True
    except ImportError:
        return False


def run_shard(spec):
    col = core.Collector()
    part = spec["part"]
    if part == "grid":
        allc = list(_grid(spec["schemes"]))
        for case in allc[spec["lo"] : spec["hi"]]:
            try:
                fails = run_http(case)
            except core.InvalidCase:
                col.note("invalid_generated")
                continue
            col.case(case, nontrivial(case), [f"{case['scheme']}:{case['placement']}:{case['history']}"], fails, distinct_by_construction=True)
    elif part == "unit":
        for total, connect, read in itertools.product(VALS, repeat=3):
            for d in DS:
                case = {"kind": "unit", "total": total, "connect": connect, "read": read, "d": d}
                col.case(case, nontrivial(case), ["unit"], run_unit(case), distinct_by_construction=True)
    elif part == "invalid":
        for v in INVALID + ["obj"]:
            jv = v
            if isinstance(v, list):
                jv = "list"
            elif isinstance(v, dict):
                jv = "dict"
            elif isinstance(v, tuple):
                jv = "tuple"
            elif isinstance(v, bytes):
                jv = "bytes"
            for slot in ("total", "connect", "read", "pool-float", "from_float", "request-float"):
                case = {"kind": "invalid", "value": jv, "slot": slot}
                col.case(case, True, ["invalid:" + slot], run_invalid(case), distinct_by_construction=True)
    else:
        from hypothesis import strategies as st

        pos = st.one_of(st.none(), st.floats(min_value=1e-9, max_value=1e9, allow_nan=False, allow_infinity=False), st.sampled_from([0.5, 2, 10, 1e-9, float("inf")]))
        strat = st.fixed_dictionaries({"kind": st.just("float"), "total": pos, "connect": pos, "read": pos, "d1": st.floats(0, 1e6, allow_nan=False), "d2": st.floats(0, 1e6, allow_nan=False)})

        def body(case):
            col.case(case, True, ["float"], run_float(case))

        core.hyp_run(strat, spec["n"], spec["seed"], body)
    return col


def min_nontrivial(tier):
    return 10000
