"""Generic greedy shrinker over JSON-able cases.

`shrink(case, still_fails, budget_s)` repeatedly proposes structurally smaller
cases (delete list elements / chunks, shorten strings, lower integers, replace
dict values by simpler ones) and keeps a candidate when `still_fails` says the
same failure bucket is still produced.  Candidates outside the property's
domain are rejected by `check_case` raising InvalidCase (or any harness-side
exception), which `still_fails` maps to False.
"""
from __future__ import annotations

import time
import typing


def _candidates(x: typing.Any) -> typing.Iterator[typing.Any]:
    if isinstance(x, bool) or x is None:
        if x is True:
            yield False
        return
    if isinstance(x, int):
        if x != 0:
            yield 0
            if abs(x) > 1:
                yield x // 2
                yield x - 1 if x > 0 else x + 1
        return
    if isinstance(x, float):
        if x != 0.0:
            yield 0.0
            if x == x and abs(x) != float("inf") and x != int(x):
                yield float(int(x))
        return
    if isinstance(x, str):
        n = len(x)
        if n == 0:
            return
        yield ""
        k = n // 2
        while k >= 1:
            for i in range(0, n, k):
                yield x[:i] + x[i + k :]
            k //= 2
        # simplify characters
        for i, ch in enumerate(x):
            if ch not in "a0":
                yield x[:i] + "a" + x[i + 1 :]
        return
    if isinstance(x, list):
        n = len(x)
        k = n // 2 if n > 1 else 1
        while k >= 1 and n:
            for i in range(0, n, k):
                yield x[:i] + x[i + k :]
            if k == 1:
                break
            k //= 2
        for i, v in enumerate(x):
            for c in _candidates(v):
                yield x[:i] + [c] + x[i + 1 :]
        return
    if isinstance(x, dict):
        for key in sorted(x):
            for c in _candidates(x[key]):
                y = dict(x)
                y[key] = c
                yield y
        return


def shrink(
    case: typing.Any,
    still_fails: typing.Callable[[typing.Any], bool],
    budget_s: float = 30.0,
    max_steps: int = 20000,
) -> tuple[typing.Any, dict]:
    t0 = time.time()
    steps = accepted = 0
    improved = True
    cur = case
    while improved and time.time() - t0 < budget_s and steps < max_steps:
        improved = False
        for cand in _candidates(cur):
            steps += 1
            if time.time() - t0 > budget_s or steps >= max_steps:
                break
            try:
                ok = still_fails(cand)
            except Exception:
                ok = False
            if ok:
                cur = cand
                accepted += 1
                improved = True
                break
    return cur, {"steps": steps, "accepted": accepted, "wall_s": round(time.time() - t0, 2)}
