"""Sensitivity mutants (DESIGN.md section 6). Each keeps the pinned suite green (spot-checked) and
breaks one property. edits = [(file under src/urllib3, old text, new text)]."""

MUTANTS = [
    # ---- C14
    {"id": "c14-backslash-authority", "props": ["C14"], "desc": "authority regex no longer stops at a backslash",
     "edits": [("util/url.py", 'r"(?://([^\\\\/?#]*))?"', 'r"(?://([^/?#]*))?"')]},
    {"id": "c14-partition-at", "props": ["C14"], "desc": "userinfo split at the FIRST '@' instead of the last",
     "edits": [("util/url.py", 'authority.rpartition("@")', 'authority.partition("@")[::1] if "@" in authority else ("", "", authority)')]},
    {"id": "c14-revert-D6", "props": ["C14"], "desc": "revert fix D6 (empty host '')",
     "edits": [("util/url.py", "host = _normalize_host(host, scheme) or None", "host = _normalize_host(host, scheme)")]},
    {"id": "c14-revert-D14", "props": ["C14"], "desc": "revert fix D14 ($ anchor)",
     "edits": [("util/url.py", "{0,4}))?\\\\Z\")", "{0,4}))?$\")")]},
    {"id": "c14-port-range", "props": ["C14"], "desc": "port upper bound 65536",
     "edits": [("util/url.py", "0 <= port_int <= 65535", "0 <= port_int <= 65536")]},
    {"id": "c14-quadratic", "props": ["C14"], "desc": "quadratic dot-segment removal",
     "edits": [("util/url.py", "        if segment == \".\":\n            continue", "        if segment == \".\" or \"/\".join(output) is None:\n            continue")]},
    {"id": "c14-lower-escape", "props": ["C14"], "desc": "percent escapes no longer upper-cased",
     "edits": [("util/url.py", "lambda match: match.group(0).upper(), component", "lambda match: match.group(0), component")]},
    # ---- C16
    {"id": "c16-copy-shares", "props": ["C16"], "desc": "copy shares value lists with the source",
     "edits": [("_collections.py", "self._container[key.lower()] = [key, *val]", "self._container[key.lower()] = other._container[key.lower()]")]},
    {"id": "c16-setitem-appends", "props": ["C16"], "desc": "__setitem__ keeps the old display name",
     "edits": [("_collections.py", "        self._container[key.lower()] = [key, val]", "        self._container[key.lower()] = [self._container.get(key.lower(), [key])[0], val]")]},
    {"id": "c16-combine-first", "props": ["C16"], "desc": "combine joins onto the first value instead of the last",
     "edits": [("_collections.py", 'vals[-1] = vals[-1] + ", " + val', 'vals[1] = vals[1] + ", " + val')]},
    {"id": "c16-or-inplace", "props": ["C16"], "desc": "| mutates its left operand (no copy)",
     "edits": [("_collections.py", "        result = self.copy()\n        result.extend(maybe_constructable)", "        result = self\n        result.extend(maybe_constructable)")]},
]
